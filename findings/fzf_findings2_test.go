package fzf

import (
	"strings"
	"testing"
	"testing/iotest"

	"github.com/junegunn/fzf/src/util"
)

// F11: io.Reader allows Read to return n > 0 together with io.EOF.  When the last record has no trailing
// delimiter and arrives that way, feed appended the same bytes to `leftover` twice.
func TestF11FeedDataWithEOF(t *testing.T) {
	var got []string
	r := NewReader(func(b []byte) bool { got = append(got, string(b)); return true }, util.NewEventBox(), util.NewExecutor(""), false, false)
	r.feed(iotest.DataErrReader(strings.NewReader("one\ntwo")))
	want := []string{"one", "two"}
	if len(got) != len(want) || got[0] != want[0] || got[1] != want[1] {
		t.Fatalf("records %q, want %q", got, want)
	}
}

// F13: an empty record in the data that Read returns together with io.EOF was dropped
// ("a\n\nb\n" gave "a", "b" instead of "a", "", "b").
func TestF13FeedEmptyRecordWithEOF(t *testing.T) {
	var got []string
	r := NewReader(func(b []byte) bool { got = append(got, string(b)); return true }, util.NewEventBox(), util.NewExecutor(""), false, false)
	r.feed(iotest.DataErrReader(strings.NewReader("a\n\nb\n")))
	want := []string{"a", "", "b"}
	if strings.Join(got, "|") != strings.Join(want, "|") || len(got) != len(want) {
		t.Fatalf("records %q, want %q", got, want)
	}
}
