package fzf

import (
	"strings"
	"testing"
	"testing/iotest"

	"github.com/junegunn/fzf/src/util"
)

// F11: io.Reader allows Read to return n > 0 together with io.EOF.  When the last record has no trailing
// delimiter and arrives that way, feed appended the same bytes to `leftover` twice.
func TestF11FeedDataWithEOF(t *testing.T) {
	var got []string
	r := NewReader(func(b []byte) bool { got = append(got, string(b)); return true }, util.NewEventBox(), util.NewExecutor(""), false, false)
	r.feed(iotest.DataErrReader(strings.NewReader("one\ntwo")))
	want := []string{"one", "two"}
	if len(got) != len(want) || got[0] != want[0] || got[1] != want[1] {
		t.Fatalf("records %q, want %q", got, want)
	}
}
