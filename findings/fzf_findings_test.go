package fzf

// Demonstrations of findings F2, F6 (DESIGN.md §5) against the real package.

import "testing"

func TestFinding_F2_UnclosedSpan(t *testing.T) {
	_, offs, _ := extractColor("\x1b[31mfoo\x1b[31m", nil, nil)
	if offs == nil || len(*offs) != 1 || (*offs)[0].offset != [2]int32{0, 3} {
		t.Fatalf("offsets %v", offs)
	}
}

func TestFinding_F6_ColonThenSemicolon(t *testing.T) {
	_, offs, _ := extractColor("\x1b[38:5:196;1mX", nil, nil)
	if offs == nil || len(*offs) != 1 || (*offs)[0].color.fg != 196 {
		t.Fatalf("offsets %v", offs)
	}
	_, offs, _ = extractColor("\x1b[38:2:1:2:3;4mX", nil, nil)
	if offs == nil || len(*offs) != 1 || (*offs)[0].color.fg != (1<<24)|(1<<16)|(2<<8)|3 {
		t.Fatalf("offsets %v", offs)
	}
}
