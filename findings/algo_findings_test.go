package algo

// Demonstrations of findings F1, F4, F5, F7 (DESIGN.md §5) against the real
// package. Injected with `go test -overlay`; not part of /repo.

import (
	"testing"

	"github.com/junegunn/fzf/src/util"
)

func slabFilled(v int16) *util.Slab {
	s := util.MakeSlab(100*1024, 2048)
	for i := range s.I16 {
		s.I16[i] = v
	}
	for i := range s.I32 {
		s.I32[i] = int32(v)
	}
	return s
}

// F1: V2 back-trace reads slab cells that this call never wrote.
func TestFinding_F1_StaleSlab(t *testing.T) {
	Init("default")
	chars := util.ToChars([]byte("ax-axxb"))
	r1, p1 := FuzzyMatchV2(false, false, true, &chars, []rune("ab"), true, slabFilled(0))
	r2, p2 := FuzzyMatchV2(false, false, true, &chars, []rune("ab"), true, slabFilled(7))
	if r1 != r2 || len(*p1) != len(*p2) || (*p1)[1] != (*p2)[1] {
		t.Fatalf("result depends on stale slab contents: %v %v vs %v %v", r1, *p1, r2, *p2)
	}
}

// F4: boundary exact match never matches in backward mode.
func TestFinding_F4_BoundaryBackward(t *testing.T) {
	Init("default")
	chars := util.ToChars([]byte("foo bar"))
	rf, _ := ExactMatchBoundary(false, false, true, &chars, []rune("foo"), false, nil)
	rb, _ := ExactMatchBoundary(false, false, false, &chars, []rune("foo"), false, nil)
	if rf.Start != 0 || rb.Start != 0 || rb.End != 3 {
		t.Fatalf("forward %v backward %v", rf, rb)
	}
}

// F5: title-case letters are not folded by V2.
func TestFinding_F5_TitleCase(t *testing.T) {
	Init("default")
	chars := util.ToChars([]byte("xǅy"))
	r1, _ := FuzzyMatchV1(false, false, true, &chars, []rune("ǆ"), false, nil)
	r2, _ := FuzzyMatchV2(false, false, true, &chars, []rune("ǆ"), false, nil)
	if (r1.Start >= 0) != (r2.Start >= 0) {
		t.Fatalf("v1 %v v2 %v", r1, r2)
	}
}

// F7: single-character query score is not the recurrence maximum.
func TestFinding_F7_SingleCharScore(t *testing.T) {
	Init("default")
	chars := util.ToChars([]byte("/B B21bab/A"))
	r, _ := FuzzyMatchV2(false, false, true, &chars, []rune("b"), false, nil)
	if r.Score != 36 {
		t.Fatalf("score %d, recurrence maximum is 36 (B after blank): %v", r.Score, r)
	}
}
