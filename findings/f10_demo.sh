#!/bin/sh
# F10: with --with-nth, the streaming path of filter mode (no sorting: +s) printed the transformed display
# text instead of the original line.  Expected output of both commands: "a b c".
# usage: findings/f10_demo.sh /path/to/fzf
set -e
FZF=${1:-fzf}
a=$(printf 'a b c\nx y z\n' | "$FZF" --with-nth 2 -f b)
b=$(printf 'a b c\nx y z\n' | "$FZF" --with-nth 2 -f b +s)
echo "sorted path:    $a"
echo "streaming path: $b"
[ "$a" = "a b c" ] && [ "$b" = "a b c" ]
