#!/bin/sh
# F12: in filter mode without sorting (+s / --no-sort) fzf streams matches as the input is read and never applied
# --tail: `fzf -f a +s --tail=2` printed all five matches, `fzf -f a --tail=2` the last two.
# Expected output of both commands: "a4 a5".
# usage: findings/f12_demo.sh /path/to/fzf
set -e
FZF=${1:-fzf}
a=$(printf 'a1\na2\na3\na4\na5\n' | "$FZF" -f a --tail=2 | tr '\n' ' ')
b=$(printf 'a1\na2\na3\na4\na5\n' | "$FZF" -f a +s --tail=2 | tr '\n' ' ')
echo "sorted path:    $a"
echo "streaming path: $b"
[ "$a" = "a4 a5 " ] && [ "$b" = "a4 a5 " ]
