package tui

import (
	"os"
	"testing"
	"unsafe"

	"golang.org/x/sys/unix"
	"golang.org/x/term"
)

// F9: the terminal goes away (read error) while the bytes of an unfinished escape sequence are pending.
// GetChar must report Fatal (documented: exit with an error), it must not panic.
func TestF9GetCharReadErrorAfterPartialEscape(t *testing.T) {
	master, err := os.OpenFile("/dev/ptmx", os.O_RDWR, 0)
	if err != nil {
		t.Skip("no pty available: " + err.Error())
	}
	var unlock int32
	if _, _, e := unix.Syscall(unix.SYS_IOCTL, master.Fd(), unix.TIOCSPTLCK, uintptr(unsafe.Pointer(&unlock))); e != 0 {
		t.Skip("cannot unlock pty")
	}
	n, err := unix.IoctlGetInt(int(master.Fd()), unix.TIOCGPTN)
	if err != nil {
		t.Skip("no pts number")
	}
	slave, err := os.OpenFile("/dev/pts/"+itoa(n), os.O_RDWR|unix.O_NOCTTY, 0)
	if err != nil {
		t.Skip("cannot open slave: " + err.Error())
	}
	st, err := term.GetState(int(slave.Fd()))
	if err != nil {
		t.Skip("no termios")
	}
	out, _ := os.OpenFile("/dev/null", os.O_WRONLY, 0)
	r := &LightRenderer{ttyin: slave, ttyout: out, origState: st, fullscreen: true, showCursor: true}
	// "ESC [" has been read; the rest of the sequence never arrives because the terminal is gone
	r.buffer = []byte{27, '['}
	master.Close() // hang-up: reads from the slave now fail with EIO
	defer func() {
		if e := recover(); e != nil {
			t.Fatalf("GetChar panicked instead of reporting Fatal: %v", e)
		}
	}()
	ev := r.GetChar()
	if ev.Type != Fatal {
		t.Fatalf("expected Fatal, got %v", ev.Type)
	}
}

func itoa(n int) string {
	if n == 0 {
		return "0"
	}
	s := ""
	for n > 0 {
		s = string(rune('0'+n%10)) + s
		n /= 10
	}
	return s
}
