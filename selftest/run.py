#!/usr/bin/env python3
"""Must-fail / must-pass corpus for the gowp engine.

Each mutant patch is applied to a scratch copy of /repo (outside /repo and /verif, removed afterwards)
and the property's check must exit 1 with a VIOLATION line.  Entries with expect=pass must exit 0: the
unchanged tree, and the changes the checks are known not to reach (known_miss: printed as MISS, with the reason
in corpus.json and in DESIGN.md) - if one of those starts being detected the entry has to be updated - and the
behaviour-preserving edits under selftest/equivalent/ (printed as quiet; an ALARM there is a false alarm)."""
import json
import os
import shutil
import subprocess
import sys
import tempfile

VERIF = os.path.dirname(os.path.dirname(os.path.abspath(__file__)))
corpus = json.load(open(os.path.join(VERIF, 'selftest', 'corpus.json')))
only = sys.argv[1:]
scratch_root = tempfile.mkdtemp(prefix='gowp-selftest-')
ok = True
try:
    base_props = sorted(set(e['property'] for e in corpus if not only or any(o in e['patch'] or o == e['property'] for o in only)))
    corpus = [{'patch': None, 'property': p, 'expect': 'pass'} for p in base_props] + corpus
    for ent in corpus:
        if ent['patch'] is None:
            pass
        elif only and not any(o in ent['patch'] or o == ent['property'] for o in only):
            continue
        d = os.path.join(scratch_root, 'repo')
        shutil.rmtree(d, ignore_errors=True)
        subprocess.check_call(['git', 'clone', '-q', '--no-hardlinks', '/repo', d])
        if ent['patch'] is None:
            ent['patch'] = '(unchanged tree)'
            p = subprocess.run(['true'])
        else:
            p = subprocess.run(['git', '-C', d, 'apply', os.path.join(VERIF, ent['patch'])], stderr=subprocess.PIPE)
        if p.returncode != 0:
            print('SKIP  %-45s patch does not apply: %s' % (ent['patch'], p.stderr.decode()[:100]))
            ok = False
            continue
        env = dict(os.environ, GOWP_NO_RETRY='1', GOWP_REPO=d, GOWP_EVIDENCE_DIR=os.path.join(scratch_root, 'ev'), GOWP_REPLAY_DIR=os.path.join(scratch_root, 'replay'))
        r = subprocess.run([os.path.join(VERIF, 'gowp'), 'check', ent['property']], stdout=subprocess.PIPE, stderr=subprocess.PIPE, env=env)
        out = r.stdout.decode()
        viol = [l for l in out.split('\n') if l.startswith('VIOLATION')]
        want = ent.get('expect', 'violation')
        got = 'violation' if (r.returncode == 1 and viol) else ('pass' if r.returncode == 0 else 'error')
        hit = want == got and (not ent.get('obligation') or any(ent['obligation'] in l for l in viol))
        print('%s %-45s %s want=%s got=%s %s' % (('MISS ' if ent.get('known_miss') else ('quiet' if ent.get('equivalent') else 'ok   ')) if hit else ('ALARM' if ent.get('equivalent') else 'FAIL '), ent['patch'], ent['property'], want, got, (viol[0].split('replay=')[1] if viol else '')[:90]))
        ok = ok and hit
finally:
    shutil.rmtree(scratch_root, ignore_errors=True)
sys.exit(0 if ok else 1)
