#!/usr/bin/env python3
"""Must-fail / must-pass corpus for the gowp engine.

Each mutant patch is applied to a scratch copy of /repo (outside /repo and /verif, removed afterwards)
and the property's check must exit 1 with a VIOLATION line.  Entries with expect=pass must exit 0: the
unchanged tree, and the changes the checks are known not to reach (known_miss: printed as MISS, with the reason
in corpus.json and in DESIGN.md) - if one of those starts being detected the entry has to be updated - and the
behaviour-preserving edits under selftest/equivalent/ (printed as quiet; an ALARM there is a false alarm)."""
import json
import os
import shutil
import subprocess
import sys
import tempfile

VERIF = os.path.dirname(os.path.dirname(os.path.abspath(__file__)))
corpus = json.load(open(os.path.join(VERIF, 'selftest', 'corpus.json')))
only = [a for a in sys.argv[1:] if not a.startswith('-j')]
jobs = ([int(a[2:]) for a in sys.argv[1:] if a.startswith('-j')] or [1])[0]
scratch_root = tempfile.mkdtemp(prefix='gowp-selftest-')
# the corpus is run against one commit of /repo: the one that is HEAD when the run starts
head = subprocess.check_output(['git', '-C', '/repo', 'rev-parse', 'HEAD']).decode().strip()


def run_entry(arg):
    k, ent = arg
    root = os.path.join(scratch_root, 'w%d' % k)
    os.makedirs(root)
    d = os.path.join(root, 'repo')
    try:
        subprocess.check_call(['git', 'clone', '-q', '--no-hardlinks', '/repo', d])
        subprocess.check_call(['git', '-C', d, 'checkout', '-q', head])
        if ent['patch'] is None:
            ent['patch'] = '(unchanged tree)'
            p = subprocess.run(['true'])
        else:
            p = subprocess.run(['git', '-C', d, 'apply', os.path.join(VERIF, ent['patch'])], stderr=subprocess.PIPE)
        if p.returncode != 0:
            return False, 'SKIP  %-45s patch does not apply: %s' % (ent['patch'], p.stderr.decode()[:100])
        env = dict(os.environ, GOWP_REPO=d, GOWP_EVIDENCE_DIR=os.path.join(root, 'ev'), GOWP_REPLAY_DIR=os.path.join(root, 'replay'))
        if ent.get('expect', 'violation') == 'violation':
            env['GOWP_NO_RETRY'] = '1'      # (a change that must be detected: no second, slower attempt at the failed obligations)
        r = subprocess.run([os.path.join(VERIF, 'gowp'), 'check', ent['property']], stdout=subprocess.PIPE, stderr=subprocess.PIPE, env=env)
        out = r.stdout.decode()
        viol = [l for l in out.split('\n') if l.startswith('VIOLATION')]
        want = ent.get('expect', 'violation')
        got = 'violation' if (r.returncode == 1 and viol) else ('pass' if r.returncode == 0 else 'error')
        hit = want == got and (not ent.get('obligation') or any(ent['obligation'] in l for l in viol))
        return hit, '%s %-45s %s want=%s got=%s %s' % (('MISS ' if ent.get('known_miss') else ('quiet' if ent.get('equivalent') else 'ok   ')) if hit else ('ALARM' if ent.get('equivalent') else 'FAIL '), ent['patch'], ent['property'], want, got, (os.path.basename(viol[0].split('replay=')[1]) if viol else '')[:90])
    finally:
        shutil.rmtree(root, ignore_errors=True)


ok = True
try:
    base_props = sorted(set(e['property'] for e in corpus if not only or any(o in e['patch'] or o == e['property'] for o in only)))
    corpus = [{'patch': None, 'property': p, 'expect': 'pass'} for p in base_props] + corpus
    todo = [e for e in corpus if e['patch'] is None or not only or any(o in e['patch'] or o == e['property'] for o in only)]
    from concurrent.futures import ThreadPoolExecutor
    with ThreadPoolExecutor(max_workers=jobs) as pool:
        for hit, line in pool.map(run_entry, enumerate(todo)):
            print(line, flush=True)
            ok = ok and hit
finally:
    shutil.rmtree(scratch_root, ignore_errors=True)
sys.exit(0 if ok else 1)
