"""Contract files (//@ lines in *_verif.go and /verif/contracts/*.spec) and the
Go-syntax expression parser used for contract clauses."""
import re

KEYWORDS = {'func', 'requires', 'ensures', 'modifies', 'loop', 'invariant', 'decreases', 'writes', 'spec',
            'axiom', 'lemma', 'typeinv', 'effect', 'property', 'wrap', 'track', 'trusted', 'assume',
            'pure', 'ovf', 'replay', 'note', 'havoc', 'package', 'funcvar', 'ghost', 'reads', 'bounded', 'use',
            'assert', 'cut', 'opaque', 'params', 'deadreturns', 'bensures', 'mathint', 'global', 'globalinv', 'exit', 'entry', 'skip', 'callsite', 'libfact', 'frees', 'reveal', 'appfact'}


class SpecError(Exception):
    pass


# ---------------------------------------------------------------- tokenizer
TOK = re.compile(r'''
 (?P<ws>\s+)
|(?P<num>0[xX][0-9a-fA-F_]+|\d[\d_]*)
|(?P<chr>'(?:\\x[0-9a-fA-F]{2}|\\u[0-9a-fA-F]{4}|\\.|[^'\\])')
|(?P<str>"(?:\\.|[^"\\])*"|`[^`]*`)
|(?P<id>[A-Za-z_][A-Za-z0-9_$]*)
|(?P<op><==>|==>|&&|\|\||==|!=|<=|>=|<<|>>|&\^|[-+*/%<>!&|^()\[\]{},.:?])
''', re.X)

ESC = {'n': 10, 't': 9, 'r': 13, 'a': 7, 'b': 8, 'f': 12, 'v': 11, '\\': 92, "'": 39, '"': 34, '0': 0}


def unescape(s):
    out = bytearray()
    i = 0
    while i < len(s):
        c = s[i]
        if c == '\\':
            n = s[i + 1]
            if n == 'x':
                out.append(int(s[i + 2:i + 4], 16))
                i += 4
                continue
            if n == 'u':
                out += chr(int(s[i + 2:i + 6], 16)).encode('utf8')
                i += 6
                continue
            out.append(ESC[n])
            i += 2
            continue
        out += c.encode('utf8')
        i += 1
    return bytes(out)


def tokenize(s):
    toks = []
    i = 0
    while i < len(s):
        m = TOK.match(s, i)
        if not m:
            raise SpecError('bad token at %r' % s[i:i + 20])
        i = m.end()
        k = m.lastgroup
        if k == 'ws':
            continue
        v = m.group(k)
        if k == 'num':
            toks.append(('num', int(v.replace('_', ''), 0)))
        elif k == 'chr':
            b = unescape(v[1:-1])
            toks.append(('num', ord(b.decode('utf8'))))
        elif k == 'str':
            toks.append(('str', v[1:-1].encode('utf8') if v[0] == '`' else unescape(v[1:-1])))
        elif k == 'id':
            toks.append(('id', v))
        else:
            toks.append(('op', v))
    toks.append(('eof', None))
    return toks


BINPREC = [
    ['<==>'], ['==>'], ['?'], ['||'], ['&&'], ['==', '!=', '<', '<=', '>', '>='],
    ['+', '-', '|', '^'], ['*', '/', '%', '<<', '>>', '&', '&^'],
]


class Parser(object):
    def __init__(self, s):
        self.src = s
        self.t = tokenize(s)
        self.i = 0

    def peek(self):
        return self.t[self.i]

    def next(self):
        x = self.t[self.i]
        self.i += 1
        return x

    def accept(self, v):
        k, x = self.t[self.i]
        if k == 'op' and x == v:
            self.i += 1
            return True
        return False

    def expect(self, v):
        if not self.accept(v):
            raise SpecError('expected %r at token %d (%r) in %r' % (v, self.i, self.t[self.i], self.src))

    def parse(self):
        e = self.expr(0)
        if self.peek()[0] != 'eof':
            raise SpecError('trailing tokens %r in %r' % (self.t[self.i:], self.src))
        return e

    def expr(self, lvl):
        if lvl >= len(BINPREC):
            return self.unary()
        ops = BINPREC[lvl]
        if ops == ['?']:
            c = self.expr(lvl + 1)
            if self.accept('?'):
                a = self.expr(lvl)
                self.expect(':')
                b = self.expr(lvl)
                return ('cond', c, a, b)
            return c
        if ops == ['==>'] or ops == ['<==>']:
            a = self.expr(lvl + 1)
            k, v = self.peek()
            if k == 'op' and v in ops:
                self.next()
                b = self.expr(lvl)  # right assoc
                return ('bin', v, a, b)
            return a
        a = self.expr(lvl + 1)
        while True:
            k, v = self.peek()
            if k == 'op' and v in ops:
                self.next()
                b = self.expr(lvl + 1)
                a = ('bin', v, a, b)
            else:
                return a

    def unary(self):
        k, v = self.peek()
        if k == 'op' and v in ('-', '!', '*', '&', '+', '^'):
            self.next()
            e = self.unary()
            if v == '-' and e[0] == 'num':
                return ('num', -e[1])
            return ('un', v, e)
        return self.postfix()

    def postfix(self):
        k, v = self.next()
        if k == 'num':
            e = ('num', v)
        elif k == 'str':
            e = ('str', v)
        elif k == 'id':
            e = ('id', v)
        elif k == 'op' and v == '(':
            e = self.expr(0)
            self.expect(')')
        elif k == 'op' and v == '[':
            # slice type literal like []int is not supported in contracts
            raise SpecError('unexpected [ in %r' % self.src)
        else:
            raise SpecError('unexpected %r in %r' % ((k, v), self.src))
        while True:
            if self.accept('.'):
                k2, n = self.next()
                if k2 != 'id':
                    raise SpecError('selector in %r' % self.src)
                e = ('sel', e, n)
            elif self.accept('['):
                lo = hi = None
                if self.accept(':'):
                    if not self.accept(']'):
                        hi = self.expr(0)
                        self.expect(']')
                    e = ('slc', e, None, hi)
                    continue
                lo = self.expr(0)
                if self.accept(':'):
                    if not self.accept(']'):
                        hi = self.expr(0)
                        self.expect(']')
                    e = ('slc', e, lo, hi)
                else:
                    self.expect(']')
                    e = ('idx', e, lo)
            elif self.accept('('):
                args = []
                if not self.accept(')'):
                    while True:
                        args.append(self.expr(0))
                        if self.accept(')'):
                            break
                        self.expect(',')
                e = ('call', e, args)
            else:
                return e


def parse_expr(s):
    return Parser(s).parse()


def expr_ids(e, acc=None):
    if acc is None:
        acc = set()
    if isinstance(e, tuple):
        if e[0] == 'id':
            acc.add(e[1])
        for x in e[1:]:
            if isinstance(x, tuple):
                expr_ids(x, acc)
            elif isinstance(x, list):
                for y in x:
                    expr_ids(y, acc)
    return acc


# ---------------------------------------------------------------- contract files
class Clause(object):
    def __init__(self, kind, text, props, src, label=None):
        self.kind = kind
        self.text = text
        self.props = props      # set of property ids or None
        self.src = src          # file:line
        self.label = label
        self._e = None

    @property
    def expr(self):
        if self._e is None:
            try:
                self._e = parse_expr(self.text)
            except SpecError as ex:
                raise SpecError('%s: %s' % (self.src, ex))
        return self._e

    def __repr__(self):
        return '%s %s' % (self.kind, self.text)


class LoopSpec(object):
    def __init__(self, ordinal, hint, src):
        self.ordinal = ordinal
        self.hint = hint
        self.src = src
        self.invariants = []
        self.decreases = None
        self.writes = None     # list of location strings or None
        self.asserts = []


class FuncSpec(object):
    def __init__(self, name, src):
        self.name = name
        self.src = src
        self.requires = []
        self.ensures = []
        self.modifies = None    # None = not given (treated as nothing)
        self.loops = {}
        self.props = set()
        self.opts = {}          # wrap, track, ovf, trusted, pure ...
        self.notes = []
        self.effects = []
        self.replay = None
        self.uses = []          # lemma applications: 'use name(args)' at function level (entry)
        self.asserts = []       # (line-anchor, clause)
        self.trusted = False
        self.frees = []


class SpecFunc(object):
    def __init__(self, name, params, ret, body, extern, src, decreases=None):
        self.name = name
        self.params = params    # list of (name, type string)
        self.ret = ret
        self.body = body        # expr text or None
        self.extern = extern    # go expression text for replay, or None
        self.src = src
        self.decreases = decreases
        self._e = None
        self.opaque = False
        self.trigger_defs = True

    @property
    def expr(self):
        if self._e is None and self.body is not None:
            self._e = parse_expr(self.body)
        return self._e


class Lemma(object):
    def __init__(self, name, params, src):
        self.name = name
        self.params = params
        self.src = src
        self.requires = []
        self.ensures = []
        self.induction = None
        self.props = set()
        self.uses = []
        self.trusted = False
        self.bounded = None


class Specs(object):
    def __init__(self):
        self.funcs = {}
        self.specfuncs = {}
        self.lemmas = {}
        self.axioms = []
        self.appfacts = {}
        self.typeinvs = {}
        self.globalinvs = []
        self.files = []

    def merge_file(self, path, pkgprefix=''):
        self.files.append(path)
        lines = []
        with open(path) as f:
            for n, raw in enumerate(f, 1):
                s = raw.strip()
                if path.endswith('.go'):
                    if not s.startswith('//@'):
                        continue
                    s = s[3:].strip()
                else:
                    if not s or s.startswith('#'):
                        continue
                    if s.startswith('//@'):
                        s = s[3:].strip()
                if not s:
                    continue
                lines.append((n, s))
        # join continuation lines
        stmts = []
        for n, s in lines:
            w = re.match(r'[a-z]+', s)
            kw = w.group(0) if w else ''
            if kw in KEYWORDS and (len(s) == len(kw) or s[len(kw)] in ' [('):
                stmts.append([n, s])
            else:
                if not stmts:
                    raise SpecError('%s:%d: continuation without statement' % (path, n))
                stmts[-1][1] += ' ' + s
        cur = None       # FuncSpec or Lemma
        curloop = None
        pkg = pkgprefix
        for n, s in stmts:
            src = '%s:%d' % (path, n)
            m = re.match(r'([a-z]+)(\[[A-Za-z0-9, ]+\])?\s*(.*)$', s)
            kw, tag, rest = m.group(1), m.group(2), m.group(3).strip()
            if ' -- ' in rest and kw in ('requires', 'ensures', 'invariant', 'assert', 'decreases', 'modifies', 'writes', 'use'):
                head_ = rest.split(' -- ', 1)[0]
                if head_.count('"') % 2 == 0:
                    rest = head_.strip()          # trailing comment
            props = set(x.strip() for x in tag[1:-1].split(',')) if tag else None
            if kw == 'package':
                pkg = rest
            elif kw == 'func':
                name = rest.split()[0]
                mr_ = re.match(r'^(\S+)\s+region(#\d+)?\s+@"(.*)"\s*$', rest)
                if mr_:
                    # only the part of <name> that starts at the statement quoting this source text is verified,
                    # from an arbitrary state that satisfies the requires clauses (see Verifier.region_entry);
                    # `region#2`, `region#3`: further regions of the same function, each a contract of its own
                    rest = name
                    if mr_.group(2):
                        name = name + '@@' + mr_.group(2)[1:]
                        rest = name
                mc_ = re.match(r'^(\S+)\s+closure\s+@"(.*)"\s*$', rest)
                if mc_:
                    # a function literal inside <name>, identified by a piece of its source text (the compiler's
                    # ordinal names $1, $2.. would shift whenever another literal is added)
                    full = qualify(pkg, mc_.group(1)) + '$@' + mc_.group(2)
                    rest = name
                else:
                    full = qualify(pkg, name)
                cur = self.funcs.get(full)
                if cur is None:
                    cur = FuncSpec(full, src)
                    self.funcs[full] = cur
                curloop = None
                if 'trusted' in rest.split()[1:]:
                    cur.trusted = True
                if mr_:
                    cur.opts['region'] = [mr_.group(3)]
            elif kw == 'lemma':
                mm = re.match(r'(\w+)\s*\((.*?)\)\s*(.*)$', rest)
                cur = Lemma(mm.group(1), parse_params(mm.group(2)), src)
                extra = mm.group(3)
                mi = re.search(r'induction\s+(\w+)', extra)
                if mi:
                    cur.induction = mi.group(1)
                if 'trusted' in extra.split():
                    cur.trusted = True
                if 'bounded' in extra.split():
                    cur.bounded = True
                cur.box = None
                self.lemmas[cur.name] = cur
                cur.pkg = pkg
                curloop = None
            elif kw == 'spec':
                mm = re.match(r'func\s+(\w+)\s*\((.*?)\)\s*([\w.\[\]*]+)\s*(.*)$', rest)
                if not mm:
                    raise SpecError('%s: bad spec func' % src)
                name, ps, ret, tail = mm.group(1), parse_params(mm.group(2)), mm.group(3), mm.group(4).strip()
                body = extern = dec = None
                md = re.search(r'\bdecreases\s+(.+)$', tail)
                if md:
                    dec = md.group(1).strip()
                    tail = tail[:md.start()].strip()
                if tail.startswith('='):
                    body = tail[1:].strip()
                elif tail.startswith('extern'):
                    extern = tail[6:].strip() or None
                    if extern is None:
                        extern = ''
                sf = SpecFunc(name, ps, ret, body, extern, src, dec)
                self.specfuncs[name] = sf
                cur = None
            elif kw == 'opaque':
                self.specfuncs[rest].opaque = True
            elif kw == 'axiom':
                self.axioms.append(Clause('axiom', rest, props, src))
            elif kw == 'appfact':
                # appfact f: E   - a fact about every (ground) application of the uninterpreted spec function f;
                # E may mention f's parameters and `result`
                nm_, e_ = rest.split(':', 1)
                self.appfacts.setdefault(nm_.strip(), []).append(Clause('appfact', e_.strip(), props, src))
            elif kw == 'globalinv':
                cl = Clause('globalinv', rest, props, src)
                cl.pkg = pkg
                self.globalinvs.append(cl)
            elif kw == 'typeinv':
                tname, e = rest.split(None, 1)
                self.typeinvs.setdefault(tname, []).append(Clause('typeinv', e, props, src))
            elif kw == 'bounded' and isinstance(cur, Lemma):
                box = {}
                for part in rest.split():
                    mm2 = re.match(r'^(.+)=(-?\d+)\.\.(-?\d+)$', part)
                    if not mm2:
                        raise SpecError('%s: bounded NAME=lo..hi' % src)
                    box[mm2.group(1)] = (int(mm2.group(2)), int(mm2.group(3)))
                cur.box = box
            elif cur is None:
                raise SpecError('%s: %s outside func' % (src, kw))
            elif kw == 'property':
                cur.props |= set(rest.replace(',', ' ').split())
            elif kw == 'requires':
                cur.requires.append(Clause(kw, rest, props, src))
            elif kw == 'ensures':
                cur.ensures.append(Clause(kw, rest, props, src))
            elif kw == 'bensures':
                cur.bensures = getattr(cur, 'bensures', [])
                cur.bensures.append(Clause(kw, rest, props, src))
            elif kw == 'modifies':
                if cur.modifies is None:
                    cur.modifies = []
                if rest != 'nothing':
                    cur.modifies += split_top(rest)
            elif kw == 'frees':
                cur.frees += split_top(rest)
            elif kw == 'loop':
                parts = rest.split(None, 1)
                k = int(parts[0])
                curloop = LoopSpec(k, parts[1] if len(parts) > 1 else None, src)
                cur.loops[k] = curloop
            elif kw == 'invariant':
                if curloop is None:
                    raise SpecError('%s: invariant outside loop' % src)
                curloop.invariants.append(Clause(kw, rest, props, src))
            elif kw == 'decreases':
                if curloop is None:
                    raise SpecError('%s: decreases outside loop' % src)
                curloop.decreases = Clause(kw, rest, props, src)
            elif kw == 'writes':
                if curloop is None:
                    raise SpecError('%s: writes outside loop' % src)
                curloop.writes = (curloop.writes or []) + ([] if rest == 'nothing' else split_top(rest))
            elif kw == 'use' and rest.startswith('@'):
                ma = re.match(r'@"([^"]*)"\s*(.*)$', rest)
                if not ma:
                    raise SpecError('%s: use @"source text" lemma(args)' % src)
                cl = Clause('use', ma.group(2), props, src)
                cl.anchor = ma.group(1)
                cur.anchored = getattr(cur, 'anchored', [])
                cur.anchored.append(cl)
            elif kw == 'callsite':
                # callsite F requires expr  : checked in THIS function at every static call of F, with arg0, arg1, .. bound to
                # the actual arguments (what this function hands to F, beyond what F itself demands)
                ma = re.match(r'(\S+)\s+requires\s+(.*)$', rest)
                if not ma:
                    raise SpecError('%s: callsite F requires expr' % src)
                cur.callsites = getattr(cur, 'callsites', [])
                cur.callsites.append((ma.group(1), Clause('callsite', ma.group(2).split(' -- ')[0].strip(), props, src)))
            elif kw == 'libfact':
                # libfact @after"source text" expr -- reason : a fact about the result of a library call made on that
                # line (what a regular expression can match, ...), assumed when the line has run and reported as an assumption
                ma = re.match(r'@after"([^"]*)"\s*(.*)$', rest)
                if not ma:
                    raise SpecError('%s: libfact @after"source text" expr -- reason' % src)
                cur.libfacts = getattr(cur, 'libfacts', [])
                cur.libfacts.append((ma.group(1), Clause('libfact', ma.group(2).split(' -- ')[0].strip(), props, src), ma.group(2)))
            elif kw == 'cut':
                ma = re.match(r'@"([^"]*)"\s*(.*)$', rest)
                cur.cuts = getattr(cur, 'cuts', [])
                cur.cuts.append((ma.group(1), ma.group(2)))
            elif kw == 'assert' and rest.startswith('@'):
                ma = re.match(r'@"([^"]*)"\s*(.*)$', rest)
                cl = Clause('assert', ma.group(2), props, src)
                cl.anchor = ma.group(1)
                cur.anchored = getattr(cur, 'anchored', [])
                cur.anchored.append(cl)
            elif kw == 'use':
                if isinstance(cur, Lemma):
                    cur.uses.append(Clause('use', rest, props, src))
                else:
                    (curloop.asserts if curloop is not None else cur.uses).append(Clause('use', rest, props, src))
            elif kw == 'assert':
                # assert @L<anchor> expr  : anchored by source text match, see exec
                (curloop.asserts if curloop is not None else cur.asserts).append(Clause('assert', rest, props, src))
            elif kw == 'induction':
                cur.induction = rest
            elif kw == 'params':
                cur.opts['params'] = rest.replace(',', ' ').split()
            elif kw in ('mathint', 'deadreturns', 'wrap', 'track', 'ovf', 'pure', 'havoc', 'skip', 'entry', 'exit', 'ghost', 'reveal'):
                cur.opts.setdefault(kw, []).append(rest)
            elif kw == 'trusted':
                cur.trusted = True
                if rest:
                    cur.notes.append('trusted: ' + rest)
            elif kw == 'note':
                cur.notes.append(rest)
            elif kw == 'replay':
                cur.replay = rest
            elif kw == 'effect':
                cur.effects.append(Clause(kw, rest, props, src))
            else:
                raise SpecError('%s: unknown keyword %s' % (src, kw))


def qualify(pkg, name):
    """'Chars.Get' in package p -> '(*p.Chars).Get' is resolved later against the SSA function table;
    here we only prefix the package."""
    if '/' in name or name.startswith('('):
        return name
    return pkg + '::' + name


def split_top(s):
    out = []
    depth = 0
    cur = ''
    for c in s:
        if c in '([':
            depth += 1
        elif c in ')]':
            depth -= 1
        if c == ',' and depth == 0:
            out.append(cur.strip())
            cur = ''
        else:
            cur += c
    if cur.strip():
        out.append(cur.strip())
    return out


def parse_params(s):
    ps = []
    for part in split_top(s):
        bits = part.split()
        if len(bits) == 1:
            ps.append((bits[0], None))
        else:
            ps.append((bits[0], bits[1]))
    # propagate types backwards: "a, b int"
    last = None
    for i in range(len(ps) - 1, -1, -1):
        if ps[i][1] is None:
            ps[i] = (ps[i][0], last)
        else:
            last = ps[i][1]
    return ps
