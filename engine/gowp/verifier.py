"""Instruction semantics, loop cutting, calls and the per-function driver."""
import re
from .term import *
from .values import *
from .exec import *
from .speceval import SpecEval, CONVS
from .spec import SpecError, parse_expr, Clause
from . import ssa as S


class _M(object):
    def __init__(self, gs):
        self.gs = gs

    def group(self, i):
        return self.gs[i - 1]


def split_range(loc):
    """'expr[lo:hi]' -> match-like object with groups (expr, lo, hi), brackets balanced; None if not of that form"""
    if not loc.endswith(']'):
        return None
    depth = 0
    for i in range(len(loc) - 1, -1, -1):
        c = loc[i]
        if c == ']':
            depth += 1
        elif c == '[':
            depth -= 1
            if depth == 0:
                inner = loc[i + 1:-1]
                d2 = 0
                for j, ch in enumerate(inner):
                    if ch in '([':
                        d2 += 1
                    elif ch in ')]':
                        d2 -= 1
                    elif ch == ':' and d2 == 0:
                        return _M((loc[:i], inner[:j], inner[j + 1:]))
                return None
    return None


class TrackDict(dict):
    """field dictionary of a probe formal: remembers which fields were read"""

    def __init__(self, d):
        dict.__init__(self, d)
        self.used = set()

    def __getitem__(self, k):
        self.used.add(k)
        return dict.__getitem__(self, k)


class LazyFields(dict):
    """fields of a struct snapshot taken through a pointer, loaded on first use: a spec function then depends
    only on the heaps of the fields it actually reads"""

    def __init__(self, names, loader):
        dict.__init__(self)
        self._names = list(names)
        self._loader = loader

    def __contains__(self, k):
        return k in self._names

    def __getitem__(self, k):
        if not dict.__contains__(self, k):
            if k not in self._names:
                raise KeyError(k)
            dict.__setitem__(self, k, self._loader(k))
        return dict.__getitem__(self, k)

    def get(self, k, d=None):
        return self[k] if k in self._names else d

    def keys(self):
        return list(self._names)

    def __iter__(self):
        return iter(self._names)

    def __len__(self):
        return len(self._names)

    def items(self):
        return [(k, self[k]) for k in self._names]

    def values(self):
        return [self[k] for k in self._names]


class ProbeSeq(SeqV):
    """sequence formal of a probe: remembers whether its length was read"""

    def __init__(self, s):
        SeqV.__init__(self, s.a, s.off, s.len, s.elem, s.alt)
        object.__setattr__(self, 'used_len', False)

    def __getattribute__(self, k):
        if k == 'len':
            object.__setattr__(self, 'used_len', True)
        return object.__getattribute__(self, k)


class Verifier(Exec):
    def __init__(self, prog, specs, fname, opts=None, resolver=None):
        Exec.__init__(self, prog, specs, fname, opts)
        self.resolver = resolver        # name resolution for contracts of callees
        self.old_env = None
        self.init_types = set()
        self.cur_detail = ''
        self.param_vals = {}
        self.ret_count = 0
        self.returns = []
        self.trusted = set()
        self.callees = set()
        self.specfun_axioms = set()
        self.pending_specfun = []
        self.unfolding = 0
        self.defers = []
        self.loop_pcs = []
        self.sf_fields = {}
        self.sf_heaps = {}
        self.heap_record = None
        self.conc_done = set()
        self.inline_returns = None
        self.live_pred = {}
        self.cut_pcs = []
        self.cut_reason = ''
        self.expand_small_quants = False
        self.sf_memo = {}
        self.last_anchor_line = {}
        self.unfolded = set()

    def configure(self, spec):
        """options that come from the function's contract block"""
        self.spec = spec
        if not spec:
            return
        self.wrap_types = set()
        for w in spec.opts.get('wrap', []):
            self.wrap_types |= set(w.replace(',', ' ').split())
        # ghost variables:  //@ ghost NAME int            (starts at 0)
        #                   //@ ghost @"source text" NAME = expr   (assignment executed when that line is reached)
        self.ghost_vars = []
        self.ghost_updates = []
        self.ghost_after = []
        for g_ in spec.opts.get('ghost', []):
            mu_ = re.match(r'^@(after)?"(.*?)"\s+(\w+)\s*=\s*(.*)$', g_)
            if mu_ and mu_.group(1):
                # //@ ghost @after"source text" NAME = expr : executed when the path leaves that line
                self.ghost_after.append((mu_.group(2), mu_.group(3), mu_.group(4).split(' -- ')[0].strip()))
            elif mu_:
                self.ghost_updates.append((mu_.group(2), mu_.group(3), mu_.group(4).split(' -- ')[0].strip()))
            else:
                self.ghost_vars.append(g_.split()[0])
        self.track_init = any('init' in x.split() for x in spec.opts.get('track', []))
        self.check_wide_ovf = any('int' in x.split() for x in spec.opts.get('ovf', []))
        for x_ in spec.opts.get('track', []):
            ws_ = x_.replace(',', ' ').split()
            if ws_ and ws_[0] == 'own':
                self.track_own = True
                self.own_types |= set('OWN:' + w_ for w_ in ws_[1:])

    # ------------------------------------------------------------------ misc helpers used by SpecEval
    def rune_tid(self):
        return 'rune' if 'rune' in self.prog.types else 'int32'

    def byte_tid(self):
        return 'byte' if 'byte' in self.prog.types else 'uint8'

    def lookup_const(self, name):
        pk = self.fn['pkg']
        for cand in (pk + '.' + name, name):
            c = self.prog.consts.get(cand)
            if c is not None:
                return self.const_val(None, c)
        # pkgshort.Name
        if '.' in name:
            p, n = name.split('.', 1)
            for full, c in self.prog.consts.items():
                if full.endswith('/' + p + '.' + n) or full == p + '.' + n:
                    return self.const_val(None, c)
        return None

    def find_func(self, name):
        pk = self.fn['pkg']
        if pk + '.' + name in self.prog.funcs:
            return pk + '.' + name
        for f in self.prog.funcs:
            if f.endswith('.' + name) and '(' not in f:
                return f
        for f in self.prog.funcs:
            if f.endswith(').' + name):
                return f
        if '.' in name:
            t_, m_ = name.rsplit('.', 1)
            for f in self.prog.funcs:
                if f.endswith('.%s).%s' % (t_, m_)):
                    return f
        return None

    def lookup_global(self, st, name):
        pk = self.fn['pkg']
        cands = [pk + '.' + name]
        if '.' in name:
            p, n = name.split('.', 1)
            cands += [g for g in self.prog.globals if g.endswith('/' + p + '.' + n)]
        for cand in cands:
            if cand in self.prog.globals:
                p = self.val(st, {'k': 'global', 'n': cand})
                k = self.kind(p.elem)
                if k in ('array', 'struct'):
                    return p
                return self.load(st, p.addr)
        return None

    def lookup_funcname(self, name):
        pk = self.fn['pkg']
        cands = [pk + '.' + name]
        if '.' in name:
            p, n = name.split('.', 1)
            cands += [g for g in self.prog.funcs if g.endswith('/' + p + '.' + n)]
        for c in cands:
            if c in self.prog.funcs:
                return c
        return None

    def map_heaps(self, st, m):
        """(key, type entry, {leaf: heap of values}, membership heap); values may be scalars or strings"""
        tid = m.tid
        u = self.U(tid)
        key = self.prog.short(tid)
        if not (self.is_scalar(u['key']) or self.is_string(u['key'])):
            raise Unsupported('map key type %s' % u['key'])
        if self.is_string(u['elem']):
            leaves = dict((s, self.heap_get(st, 'MAPV:%s.%s' % (key, s), arr(ARR_II))) for s in ('arr', 'off', 'len'))
        elif self.is_scalar(u['elem']):
            leaves = {'': self.heap_get(st, 'MAPV:' + key, arr(arr(self.sort_of(u['elem']))))}
            self.valid_scalar_heap(leaves[''], u['elem'], True)
        elif self.kind(u['elem']) == 'struct' and not self.struct_fields(u['elem']):
            leaves = {}       # set: map[K]struct{}
        elif self.kind(u['elem']) == 'struct':
            # struct values: only membership and size are modelled; a value read from the map is arbitrary
            leaves = None
        else:
            raise Unsupported('map value type %s' % u['elem'])
        hh = self.heap_get(st, 'MAPH:' + key, arr(ARR_IB))
        return key, u, leaves, hh

    def map_key_term(self, st, u, k):
        if isinstance(k, StrV):
            # strings as keys: identified by an uninterpreted content hash (equal contents give equal keys)
            self.ctx.declare_fun('str.key', (INT, INT, INT, ARR_II), INT)
            h = self.heap_get(st, 'HS:uint8', arr(ARR_II))
            if k.lit is not None:
                return self.ctx.declare_const('strkey:' + k.lit.hex()[:40], INT)
            self.trusted.add('string map keys are modelled by an uninterpreted content key')
            return app('str.key', (k.arr, k.off, k.len, select(h, k.arr)), INT)
        return self.scalar_term(k)

    def map_read(self, st, m, k, has=False):
        key, u, leaves, hh = self.map_heaps(st, m)
        present = select(select(hh, m.term), k)
        if has:
            return present
        if self.is_string(u['elem']):
            g = lambda s: ite(present, select(select(leaves[s], m.term), k), ZERO)
            return StrV(g('arr'), g('off'), g('len'))
        if leaves is None:
            self.ctx.notes.append('values of %s are not modelled (membership and size only)' % key)
            return self.fresh_value('mapval', u['elem'], True, st.alloc)
        if not leaves:
            return StructV(u['elem'], {})
        zero = FALSE if self.is_bool(u['elem']) else ZERO
        v = ite(present, select(select(leaves[''], m.term), k), zero)
        return self.wrap_scalar(v, u['elem'], st)

    def value_typename(self, v):
        if isinstance(v, PtrV):
            return self.tname(v.elem).split('.')[-1]
        if isinstance(v, (StructV, SnapV)):
            return self.tname(v.tid).split('.')[-1]
        raise SpecError('method call on %r' % (v,))

    def str_eq(self, st, x, y):
        if x.lit is not None and y.lit is not None:
            return B(x.lit == y.lit)
        if y.lit is None and x.lit is not None:
            x, y = y, x
        h = self.heap_get(st, 'HS:uint8', arr(ARR_II))
        if y.lit is not None and len(y.lit) <= 32:
            ia = select(h, x.arr)
            return and_(eq(x.len, I(len(y.lit))), *[eq(select(ia, add(x.off, I(i))), I(b)) for i, b in enumerate(y.lit)])
        n = self.ctx.counter.get('q:se', 0)
        self.ctx.counter['q:se'] = n + 1
        k = const('se?%d' % n, INT)
        if y.lit is not None:
            self.strlit_bytes_fact(st, y)
        return and_(eq(x.len, y.len), or_(and_(eq(x.arr, y.arr), eq(x.off, y.off)),
                    forall([k], implies(and_(le(ZERO, k), lt(k, x.len)), eq(select(select(h, x.arr), add(x.off, k)), select(select(h, y.arr), add(y.off, k)))))))

    def bitop(self, op, x, y, tid):
        if x.is_int() and y.is_int():
            a, b = x.val, y.val
            if op == '&':
                return I(a & b)
            if op == '|':
                return I(a | b)
            if op == '^':
                return I(a ^ b)
            if op == '<<':
                return I(a << b)
            if op == '>>':
                return I(a >> b)
            if op == '&^':
                return I(a & ~b)
        if op == '<<' and y.is_int():
            return mul(x, I(1 << y.val))
        if op == '>>' and y.is_int():
            return ediv(x, I(1 << y.val))
        if op == '&' and y.is_int() and y.val >= 0 and (y.val & (y.val + 1)) == 0:
            return emod(x, I(y.val + 1))     # x & (2^k-1) for x >= 0; for negative x two's complement also gives mod
        if op == '&' and x.is_int() and x.val >= 0 and (x.val & (x.val + 1)) == 0:
            return emod(y, I(x.val + 1))
        name = {'&': 'band', '|': 'bor', '^': 'bxor', '<<': 'shl', '>>': 'shr', '&^': 'bandnot'}[op]
        self.ctx.declare_fun(name, (INT, INT), INT)
        r = app(name, (x, y), INT)
        if name not in self.ctx.assumptions:
            self.ctx.assumptions.add(name)
            a, b = const('x!', INT), const('y!', INT)
            t = app(name, (a, b), INT)
            if name == 'band':
                self.ctx.assume(forall([a, b], implies(and_(le(ZERO, a), le(ZERO, b)), and_(le(ZERO, t), le(t, a), le(t, b))), [t]))
            elif name == 'bor':
                self.ctx.assume(forall([a, b], implies(and_(le(ZERO, a), le(ZERO, b)), and_(le(a, t), le(b, t), le(t, add(a, b)))), [t]))
            elif name == 'bandnot':
                self.ctx.assume(forall([a, b], implies(and_(le(ZERO, a), le(ZERO, b)), and_(le(ZERO, t), le(t, a))), [t]))
        if name in ('bor', 'bandnot') and y.is_int() and y.val > 0 and (y.val & (y.val - 1)) != 0 and bin(y.val).count('1') <= 8:
            # a constant mask of several bits is the same as setting / clearing its bits one after the other
            # (lowest first): a ground fact about this application, so `x &^ (A|B)` and `(x &^ A) &^ B` agree
            c_ = x
            for k_ in range(y.val.bit_length()):
                if (y.val >> k_) & 1:
                    c_ = app(name, (c_, I(1 << k_)), INT)
            self.ctx.assume(eq(r, c_))
        return r

    # ------------------------------------------------------------------ spec functions
    def parse_type(self, s):
        """type string in a spec func signature -> type id of the program"""
        s = s.strip()
        if s in self.prog.types:
            return s
        alias = {'byte': 'uint8', 'rune': 'int32'}
        if s in alias and alias[s] in self.prog.types:
            return alias[s]
        if s.startswith('*'):
            inner = self.parse_type(s[1:])
            tid = '*' + inner
            if tid not in self.prog.types:
                self.prog.types[tid] = {'kind': 'pointer', 'elem': inner}
            return tid
        if s.startswith('[]'):
            inner = self.parse_type(s[2:])
            tid = '[]' + inner
            if tid not in self.prog.types:
                self.prog.types[tid] = {'kind': 'slice', 'elem': inner}
            return tid
        cands = [t for t in self.prog.types if self.T(t)['kind'] == 'named' and (t == s or t.endswith('/' + s) or t.endswith('.' + s) and '/' not in s and '.' not in s)]
        if len(cands) >= 1:
            cands.sort(key=len)
            return cands[0]
        if s in ('int', 'bool', 'string', 'int32', 'int16', 'uint8', 'uint16', 'int64'):
            self.prog.types[s] = {'kind': 'basic', 'name': s, 'isint': s not in ('bool', 'string'), 'unsigned': s.startswith('u'), 'untyped': False}
            return s
        raise SpecError('unknown type %r in spec' % s)

    def snapshot(self, st, v, tid=None, in_struct=False):
        """heap-independent logical value"""
        if isinstance(v, T) or isinstance(v, (SeqV, SnapV)):
            return v
        if isinstance(v, SliceV):
            if self.is_scalar(v.elem):
                h = self.heap_get(st, self.hs_name(v.elem), self.hs_sort(v.elem))
                alt = None
                if in_struct and self.elem_key(v.elem) == 'uint8':
                    alt = select(self.heap_get(st, 'HS:int32', arr(ARR_II)), v.arr)
                return SeqV(select(h, v.arr), v.off, v.len, v.elem, alt)
            # slice of aggregates: stays address-based; the element heaps read become explicit arguments
            return SliceV(v.arr, v.off, v.len, v.len, v.elem)
        if isinstance(v, StrV):
            h = self.heap_get(st, 'HS:uint8', arr(ARR_II))
            if v.lit is not None:
                self.strlit_bytes_fact(st, v)
            return SeqV(select(h, v.arr), v.off, v.len, self.byte_tid())
        if isinstance(v, PtrV):
            if self.kind(v.elem) == 'struct' and in_struct:
                # a pointer held in a field of a snapshot is not followed (types may be recursive): it stays an
                # address, and what is read through it is read from the heap of the evaluation state
                return self.ptr_term(st, v) if v.term is None else v
            if self.kind(v.elem) == 'struct':
                a = v.addr if v.addr is not None else ('obj', v.elem, v.term)
                if self.addr_root(a)[0] != 'cell':
                    big = [f['name'] for f in self.struct_fields(v.elem) if self.kind(f['type']) == 'array' and not self.small_arr(f['type'])
                           and (self.U(f['type'])['len'] > 16 or not self.is_scalar(self.U(f['type'])['elem']))]
                    p = self.addr_term(st, a)
                    st2 = st.copy()
                    ftypes = dict((f['name'], f['type']) for f in self.struct_fields(v.elem))

                    def loader(fname, st2=st2, p=p, a=a, big=big, ftypes=ftypes, stid=v.elem):
                        if fname in big:
                            # large embedded arrays stay address-based (like slices of aggregates)
                            return self.ptr_term(st2, PtrV(None, ftypes[fname], ('fld', a, fname, ftypes[fname], stid)))
                        return self.snapshot(st2, self.field_load(st2, stid, p, fname, ftypes[fname]), None, True)
                    return SnapV(v.elem, LazyFields([f['name'] for f in self.struct_fields(v.elem)], loader), self.ptr_term(st, v))
                r_ = self.snapshot(st, self.load(st, a))
                if isinstance(r_, SnapV) and self.addr_root(a)[0] != 'cell':
                    r_.addr = self.ptr_term(st, v)
                return r_
            return self.scalar_term(v)
        if isinstance(v, Opaque):
            return v
        if isinstance(v, StructV):
            return SnapV(v.tid, dict((k, self.snapshot(st, x, None, True)) for k, x in v.f.items()))
        if isinstance(v, ArrV):
            return v
        raise Unsupported('snapshot of %r' % (v,))

    def flatten(self, v, out, fields=None):
        if isinstance(v, SeqV) and (fields == ('nolen',) or (isinstance(v, ProbeSeq) and fields == set())):
            out.extend([v.a, v.off])
            if v.alt is not None:
                out.append(v.alt)
            return out
        if isinstance(v, SnapV) and fields is not None:
            for f in self.struct_fields(v.tid):
                if f['name'] in fields:
                    self.flatten(v.f[f['name']], out)
            if '&' in fields:
                if v.addr is None:
                    raise Unsupported('spec function takes the address of a field of a value that has no address')
                out.append(v.addr.term)
            return out
        if isinstance(v, T):
            out.append(v)
        elif isinstance(v, Opaque):
            out.append(v.term)
        elif isinstance(v, PtrV) and v.term is not None:
            out.append(v.term)
        elif isinstance(v, SeqV):
            out.extend([v.a, v.off, v.len])
            if v.alt is not None:
                out.append(v.alt)
        elif isinstance(v, SliceV):
            out.extend([v.arr, v.off, v.len])
        elif isinstance(v, SnapV):
            for f in self.struct_fields(v.tid):
                self.flatten(v.f[f['name']], out)
        elif isinstance(v, ArrV):
            for e in v.elems:
                self.flatten(e, out)
        else:
            raise Unsupported('flatten %r' % (v,))
        return out

    def formal(self, prefix, tid, in_struct=False):
        """bound logical value of type tid for a spec function definition"""
        k = self.kind(tid)
        if self.is_string(tid):
            return SeqV(const(prefix + '.a', ARR_II), const(prefix + '.o', INT), const(prefix + '.n', INT), self.byte_tid())
        if self.is_bool(tid):
            return const(prefix, BOOL)
        if self.is_scalar(tid):
            if k == 'pointer' and self.kind(self.U(tid)['elem']) == 'struct' and in_struct:
                return PtrV(const(prefix, INT), self.U(tid)['elem'])
            if k == 'pointer' and self.kind(self.U(tid)['elem']) == 'struct':
                r_ = self.formal(prefix, self.U(tid)['elem'])
                r_.addr = PtrV(const(prefix + '.p', INT), self.U(tid)['elem'])
                return r_
            if k in ('map', 'chan', 'func', 'interface'):
                return Opaque(const(prefix, INT), tid)
            return const(prefix, INT)
        if k == 'slice':
            e = self.U(tid)['elem']
            if not self.is_scalar(e):
                n_ = const(prefix + '.n', INT)
                return SliceV(const(prefix + '.arr', INT), const(prefix + '.o', INT), n_, n_, e)
            alt = const(prefix + '.r', ARR_II) if (in_struct and self.elem_key(e) == 'uint8') else None
            return SeqV(const(prefix + '.a', arr(self.sort_of(e))), const(prefix + '.o', INT), const(prefix + '.n', INT), e, alt)
        if k == 'struct':
            return SnapV(tid, dict((f['name'], self.formal(prefix + '.' + f['name'], f['type'], True)) for f in self.struct_fields(tid)))
        if k == 'array':
            u = self.U(tid)
            if in_struct and not self.small_arr(tid) and (u['len'] > 16 or not self.is_scalar(u['elem'])):
                return PtrV(const(prefix + '.p', INT), tid)          # large embedded array: address-based
            return ArrV(tid, [self.formal('%s.%d' % (prefix, i), u['elem']) for i in range(u['len'])], u['elem'])
        raise Unsupported('formal of kind %s' % k)

    def call_specfunc(self, sf, args, ev):
        if len(args) != len(sf.params):
            raise SpecError('spec func %s: %d args expected' % (sf.name, len(sf.params)))
        recursive = sf.decreases is not None or sf.body is None or sf.opaque
        if not recursive:
            # macro expansion in the caller's state
            env = {}
            lvars, lvals = [], []
            for p, a in zip(sf.params, args):
                if isinstance(a, T) and a.op not in ('const', 'int', 'bool') and sf.body.count(p[0]) > 1:
                    n = self.ctx.counter.get('let', 0)
                    self.ctx.counter['let'] = n + 1
                    lv = const('$%s%d' % (p[0], n), a.sort)
                    lvars.append(lv)
                    lvals.append(a)
                    env[p[0]] = lv
                else:
                    env[p[0]] = a
            sub_ = SpecEval(self, ev.st, env, ev.old, 'spec func ' + sf.name)
            sub_.bound = dict(ev.bound)
            for p in sf.params:
                sub_.bound.pop(p[0], None)
            r = sub_.ev(sf.expr)
            if lvars:
                if isinstance(r, T):
                    return let(lvars, lvals, r)
                # non-scalar result: fall back to plain substitution
                env = dict((p[0], a) for p, a in zip(sf.params, args))
                sub_ = SpecEval(self, ev.st, env, ev.old, 'spec func ' + sf.name)
                sub_.bound = dict(ev.bound)
                for p in sf.params:
                    sub_.bound.pop(p[0], None)
                return sub_.ev(sf.expr)
            return r
        # uninterpreted; recursive definitions are unfolded once at every ground occurrence (no quantified
        # defining axiom: that caused matching loops on large bodies)
        snaps = [self.snapshot(ev.st, a) for a in args]
        heaps_ = self.specfun_heaps(sf, ev.st)
        fields_ = (self.sf_fields.get(sf.name) if not self.opts.get('allfields') else None) or [None] * len(snaps)
        if fields_ == 'pending':
            fields_ = [set() if isinstance(s_, (SnapV, ProbeSeq)) else None for s_ in snaps]     # recursive call while probing: adds no needs of its own
        if self.heap_record is not None:
            # probing a caller: the callee's field needs are the caller's needs too
            for s_, fl in zip(snaps, fields_):
                if isinstance(s_, SnapV) and isinstance(s_.f, TrackDict):
                    for fn_ in (fl if fl is not None else list(s_.f.keys())):
                        s_.f.used.add(fn_)
                elif isinstance(s_, ProbeSeq) and fl != ('nolen',) and fl != set():
                    object.__setattr__(s_, 'used_len', True)
        flat = []
        for s_, fl in zip(snaps, fields_):
            self.flatten(s_, flat, fl)
        # heaps the body reads through pointers become explicit extra arguments
        for hn in heaps_:
            flat.append(self.heap_get(ev.st, hn, None))
        rsort = BOOL if sf.ret == 'bool' else INT
        fname = 'sf:' + sf.name
        if sf.body is not None and sf.decreases is not None and self.expand_small_quants:
            # bounded mode: a concrete measure means the recursion can be unfolded completely (memoised)
            env = dict((p[0], s_) for p, s_ in zip(sf.params, snaps))
            meas = SpecEval(self, ev.st, env, None, 'decreases of ' + sf.name).term(parse_expr(sf.decreases))
            if meas.is_int() and meas.val <= 64:
                key = (sf.name, tuple(flat))
                if key in self.sf_memo:
                    return self.sf_memo[key]
                sub_ = SpecEval(self, ev.st, env, None, 'spec func ' + sf.name)
                body = sub_.ev(sf.expr)
                if isinstance(body, (PtrV, Opaque)):
                    body = self.scalar_term(body)
                body = self.ctx.name('sf_' + sf.name, body)
                self.sf_memo[key] = body
                return body
        if self.heap_record is not None:
            return app(fname + '$probe', flat, rsort)      # probe evaluation: result is discarded
        if fname not in self.ctx.declared:
            self.ctx.declare_fun(fname, [t.sort for t in flat], rsort)
        r = app(fname, flat, rsort)
        afs_ = getattr(self.specs, 'appfacts', {}).get(sf.name)
        if afs_ and r not in self.unfolded and not self.has_bound(flat) and self.heap_record is None:
            if sf.body is None:
                self.unfolded.add(r)
            env_ = dict((p[0], s_) for p, s_ in zip(sf.params, snaps))
            env_['result'] = r
            for cl_ in afs_:
                self.ctx.assume(SpecEval(self, ev.st, env_, None, cl_.src).boolean(cl_.expr))
            self.trusted.add('assumed fact about %s: %s' % (sf.name, '; '.join(c_.text for c_ in afs_)))
        if sf.body is not None and (self.unfolding == 0 or (sf.decreases is None and self.unfolding <= 3)) and r not in self.unfolded and not self.has_bound(flat):
            self.unfolded.add(r)
            self.unfolding += 1
            try:
                env = dict((p[0], s_) for p, s_ in zip(sf.params, snaps))
                sub_ = SpecEval(self, ev.st, env, None, 'spec func ' + sf.name)
                body = sub_.ev(sf.expr)
            finally:
                self.unfolding -= 1
            if isinstance(body, (PtrV, Opaque)):
                body = self.scalar_term(body)
            if not isinstance(body, T):
                raise SpecError('spec func %s must return a scalar' % sf.name)
            self.ctx.assume(eq(r, body))
        return r

    def specfun_heaps(self, sf, st):
        """names of the heaps a spec function's body reads (through pointer arguments), found by a probe evaluation"""
        if sf.body is None:
            return []
        hs = self.sf_heaps.get(sf.name)
        if hs is not None:
            return hs
        self.sf_heaps[sf.name] = []          # recursion guard
        self.sf_fields[sf.name] = 'pending'
        formals = [self.formal('probe$%s' % p[0], self.parse_type(p[1])) for p in sf.params]
        for i_, f_ in enumerate(formals):
            if isinstance(f_, SnapV):
                f_.f = TrackDict(f_.f)
            elif isinstance(f_, SeqV):
                formals[i_] = ProbeSeq(f_)
        env = dict((p[0], f) for p, f in zip(sf.params, formals))
        rec = set()
        saved = self.heap_record
        self.heap_record = rec
        self.unfolding += 1
        na, nd, nc = len(self.ctx.asserts), len(self.ctx.decls), dict(self.ctx.counter)
        saved_assumptions = set(self.ctx.assumptions)
        try:
            SpecEval(self, st, env, None, 'probe of ' + sf.name).ev(sf.expr)
        finally:
            self.unfolding -= 1
            self.heap_record = saved
            # facts stated during the probe mention the probe's formals: drop them (and forget that the
            # axioms among them were emitted, so that they are emitted again when really needed)
            del self.ctx.asserts[na:]
            self.ctx.assumptions = saved_assumptions
        hs = sorted(n for n in rec if not n.startswith(('MAP', 'INIT')) and not self.is_global_heap(n))
        self.sf_heaps[sf.name] = hs
        self.sf_fields[sf.name] = [(set(f_.f.used) if isinstance(f_, SnapV) else (('nolen',) if isinstance(f_, ProbeSeq) and not object.__getattribute__(f_, 'used_len') else None)) for f_ in formals]
        if hs:
            self.trusted.discard(None)
        return hs

    def is_global_heap(self, n):
        return False

    def has_bound(self, terms):
        seen = set()
        for t in terms:
            for x in subterms(t, seen):
                if x.op == 'const' and ('?' in x.val or x.val.startswith('$') or x.val.endswith('!') and len(x.val) <= 3):
                    return True
        return False

    def reveal_specfun(self, name, st):
        """`reveal f` in a function contract: the definition of the opaque (non-recursive) spec function f is
        available as a quantified axiom, triggered by applications of f, throughout that function"""
        sf = self.specs.specfuncs.get(name)
        if sf is None or sf.body is None or sf.decreases is not None:
            raise SpecError('reveal %s: not a non-recursive spec function' % name)
        heaps_ = self.specfun_heaps(sf, st)
        fields_ = self.sf_fields.get(sf.name) or [None] * len(sf.params)
        formals = [self.formal('%s$%s' % (sf.name, p[0]), self.parse_type(p[1])) for p in sf.params]
        flat = []
        for f, fl in zip(formals, fields_):
            self.flatten(f, flat, fl)
        env = dict((p[0], f) for p, f in zip(sf.params, formals))
        self.unfolding += 1
        try:
            body = SpecEval(self, st, env, None, 'spec func ' + sf.name).ev(sf.expr)
        finally:
            self.unfolding -= 1
        if not isinstance(body, T):
            raise SpecError('spec func %s must return a scalar' % sf.name)
        rsort = BOOL if sf.ret == 'bool' else INT
        fname = 'sf:' + sf.name
        # heaps the body reads (package variables, ...) are those of the function's entry state: the axiom applies
        # to applications over the same, unmodified heaps
        hargs = [self.heap_get(st, hn, None) for hn in heaps_]
        lhs = app(fname, flat + hargs, rsort)
        if fname not in self.ctx.declared:
            self.ctx.declare_fun(fname, [t.sort for t in flat + hargs], rsort)
        self.ctx.assume(forall(flat, eq(lhs, body), [lhs]))

    def flush_specfun_axioms(self, st):
        while self.pending_specfun:
            sf = self.pending_specfun.pop()
            if sf.name in self.specfun_axioms:
                continue
            self.specfun_axioms.add(sf.name)
            formals = [self.formal('%s$%s' % (sf.name, p[0]), self.parse_type(p[1])) for p in sf.params]
            flat = []
            for f in formals:
                self.flatten(f, flat)
            env = dict((p[0], f) for p, f in zip(sf.params, formals))
            sub_ = SpecEval(self, st, env, None, 'spec func ' + sf.name)
            body = sub_.ev(sf.expr)
            rsort = BOOL if sf.ret == 'bool' else INT
            lhs = app('sf:' + sf.name, flat, rsort)
            if not isinstance(body, T):
                raise SpecError('spec func %s must return a scalar' % sf.name)
            self.ctx.assume(forall(flat, eq(lhs, body), [lhs]))

    # ------------------------------------------------------------------ environment for contracts
    def spec_env(self, scope_key=None, st=None):
        """name -> value for contract expressions: parameters (entry values), named locals (current values)."""
        env = {}
        scope = None
        if scope_key is not None:
            scope = scope_key
        # locals visible by declaration position
        byname = {}
        tgt_ = {}
        for n, (comment, pos, etid) in self.cellinfo.items():
            if comment:
                byname.setdefault(comment, []).append((pos, n))
        for name, lst in byname.items():
            target = None
            if scope is not None and name in scope:
                for pos, n in lst:
                    if pos == scope[name]:
                        target = n
            elif len(lst) == 1:
                target = lst[0][1]
            elif getattr(self, 'env_line', None):
                # several locals of that name, none of them visible where the loop starts: at an anchored statement the
                # name means the one declared before it - if that is a single one
                before_ = [(pos, n) for pos, n in lst if int(pos.split(':')[0]) <= self.env_line]
                if len(before_) == 1:
                    target = before_[0][1]
            if target is None:
                continue
            env[name] = ('lazy', (lambda n_: (lambda st_: self.load_local(st_, n_)))(target))
            tgt_[name] = target
            if target not in self.cellset:
                env['&' + name] = ('lazy', (lambda n_: (lambda st_: st_.regs.get(n_)))(target))
        for p in self.fn['params']:
            if p['name'] not in env:
                env[p['name']] = ('lazy', (lambda n_: (lambda st_: st_.regs['param:' + n_]))(p['name']))
        for p in self.fn['freevars']:
            if p['name'] not in env:
                env[p['name']] = ('lazy', (lambda n_: (lambda st_: self.deref_free(st_, n_)))(p['name']))
        for gn_ in getattr(self, 'ghost_vars', []):
            env[gn_] = ('lazy', (lambda n_: (lambda st_: st_.ghost.get('gv:' + n_, ZERO)))(gn_))
        # contracts written before a local was renamed: the old name denotes the renamed variable
        def dpos_(n_):
            l_, c_ = self.cellinfo[n_][1].split(':')
            return (int(l_), int(c_))
        for on_, nn_ in (getattr(self, 'local_alias', None) or {}).items():
            shadow_ = nn_ in tgt_ and on_ in tgt_ and dpos_(tgt_[nn_]) > dpos_(tgt_[on_])     # it used to shadow the other one
            if nn_ in env and (on_ not in env or shadow_):
                env[on_] = env[nn_]
                if ('&' + nn_) in env:
                    env['&' + on_] = env['&' + nn_]
                self.ctx.notes.append('local %s was renamed to %s since the contracts were locked; the contract is read with the new name' % (on_, nn_))
        return env

    def deref_free(self, st, n):
        # a captured variable: the closure holds its address, the source name denotes its value
        v = st.regs['free:' + n]
        if isinstance(v, PtrV) and v.term is not None:
            return self.load(st, ('obj', v.elem, v.term))
        return v

    def load_local(self, st, n):
        if n in self.cellset:
            if n not in st.cells:
                raise SpecError('local %s not yet declared at this point' % self.cellinfo[n][0])
            return st.cells[n]
        p = st.regs.get(n)
        if p is None:
            raise SpecError('local %s not yet allocated at this point' % self.cellinfo[n][0])
        return self.load(st, ('obj', self.cellinfo[n][2], p.term))

    def entry_env(self):
        env = {}
        for p in self.fn['params']:
            env[p['name']] = ('lazy', (lambda n_: (lambda st_: self.param_vals[n_]))(p['name']))
        for p in self.fn['freevars']:
            env[p['name']] = ('lazy', (lambda n_: (lambda st_: self.deref_free(st_, n_)))(p['name']))
        for gn_ in getattr(self, 'ghost_vars', []):
            env[gn_] = ('lazy', (lambda n_: (lambda st_: st_.ghost.get('gv:' + n_, ZERO)))(gn_))
        for on_, nn_ in (getattr(self, 'local_alias', None) or {}).items():
            if nn_ in env and on_ not in env:
                env[on_] = env[nn_]
        return env

    def eval_clause(self, clause, st, env, old=None, what=''):
        ev = SpecEval(self, st, env, old, what or clause.src)
        try:
            return ev.boolean(clause.expr)
        except KeyError as ex:
            raise SpecError('%s: %r' % (clause.src, ex))

    # ------------------------------------------------------------------ regions from modifies / writes clauses
    def eval_regions(self, locs, st, env):
        regs = []
        for loc in locs:
            loc = loc.strip()
            if loc in ('anything', '*'):
                regs.append(('any',))
                continue
            mm_ = re.match(r'^map\((.*)\)$', loc)
            if mm_:
                mv = SpecEval(self, st, env, None, 'modifies ' + loc).ev(parse_expr(mm_.group(1)))
                regs.append(('map', self.scalar_term(mv)))
                continue
            initonly = False
            mi = re.match(r'^init\((.*)\)$', loc)
            if mi:
                initonly = True
                loc = mi.group(1).strip()
            m = split_range(loc)
            m2 = re.match(r'^(.*)\[\*\]$', loc)
            ev = SpecEval(self, st, env, None, 'modifies ' + loc)
            if m2 or m:
                base = ev.ev(parse_expr((m2 or m).group(1)))
                if m2 and isinstance(base, PtrV) and self.kind(base.elem) == 'array' and self.kind(self.U(base.elem)['elem']) == 'array' \
                        and self.is_scalar(self.U(self.U(base.elem)['elem'])['elem']) and self.U(base.elem)['len'] <= 16:
                    # a (global) matrix: one region per row
                    ot_ = self.U(base.elem)
                    rt_ = self.U(ot_['elem'])
                    ba_ = base.addr if base.addr is not None else ('obj', base.elem, base.term)
                    for ri_ in range(ot_['len']):
                        ra_ = self.addr_term(st, ('idx', ba_, I(ri_), ot_['elem']))
                        regs.append(('slice', self.elem_key(rt_['elem']), ra_, ZERO, I(rt_['len'])))
                    continue
                if isinstance(base, PtrV) and self.kind(base.elem) == 'array':
                    # an array embedded in a struct (or a global array): the region is addressed by the array's own address
                    at_ = self.U(base.elem)
                    aaddr = self.addr_term(st, base.addr) if base.addr is not None else base.term
                    base = SliceV(aaddr, ZERO, I(at_['len']), I(at_['len']), at_['elem'])
                base = ev.deref(base) if isinstance(base, PtrV) else base
                if isinstance(base, ArrRef):
                    at_ = self.U(base.tid)
                    base = SliceV(base.addr, ZERO, I(at_['len']), I(at_['len']), at_['elem'])
                if isinstance(base, PtrV):
                    raise SpecError('modifies %s: not a slice' % loc)
                if m2:
                    lo, hi = base.off, add(base.off, base.len)
                    if isinstance(base, SliceV):
                        hi = add(base.off, base.cap) if self.opts.get('cap_regions') else add(base.off, base.len)
                else:
                    lo = add(base.off, ev.term(parse_expr(m.group(2))) if m.group(2).strip() else ZERO)
                    hi = add(base.off, ev.term(parse_expr(m.group(3))) if m.group(3).strip() else base.len)
                # a region reached through a nil pointer is empty (e.g. slab.I16[...] with slab == nil)
                be = parse_expr((m2 or m).group(1))
                if be[0] == 'sel' and be[1][0] == 'id':
                    pv = ev.lookup(be[1][1]) if (be[1][1] in env or be[1][1] in ev.bound) else None
                    if isinstance(pv, PtrV) and pv.term is not None:
                        nonnil = ne(pv.term, ZERO)
                        lo, hi = ite(nonnil, lo, ZERO), ite(nonnil, hi, ZERO)
                ek = self.elem_key(base.elem) if isinstance(base, SliceV) else 'uint8'
                if isinstance(base, SliceV) and not self.is_scalar(base.elem):
                    regs.append(('objs', base.elem, base.arr, lo, hi))
                    continue
                regs.append(('initbits' if initonly else 'slice', ek, base.arr, lo, hi))
                continue
            # object or object field:  *p   p.f   *p.f
            fld = None
            e = parse_expr(loc[1:] if loc.startswith('*') else loc)
            if e[0] == 'sel' and not loc.startswith('*'):
                fld = e[2]
                e = e[1]
            if e[0] == 'id' and not loc.startswith('*') and fld is None and ('free:' + e[1]) in st.regs:
                v = st.regs['free:' + e[1]]        # a captured variable itself
            elif e[0] == 'id' and not loc.startswith('*') and fld is None and e[1] not in env and (self.fn['pkg'] + '.' + e[1]) in self.prog.globals:
                v = self.val(st, {'k': 'global', 'n': self.fn['pkg'] + '.' + e[1]})      # a package variable itself
            else:
                v = ev.ev(e)
            if not isinstance(v, PtrV):
                raise SpecError('modifies %s: expected pointer' % loc)
            if fld is None and self.kind(v.elem) == 'struct' and any(self.kind(f_['type']) == 'struct' for f_ in self.struct_fields(v.elem)):
                # a whole object: embedded structs are part of it
                regs += [r_ for r_ in self.object_regions(v.elem, self.scalar_term(v)) if r_[0] == 'obj']
            else:
                regs.append(('obj', self.tname(v.elem), self.scalar_term(v), fld))
        return regs

    # ------------------------------------------------------------------ instruction semantics
    def arith_result(self, st, op, x, y, tid):
        """integer arithmetic with overflow obligation (or wrap)"""
        if op == '+':
            r = add(x, y)
        elif op == '-':
            r = sub(x, y)
        elif op == '*':
            r = mul(x, y)
        elif op == '/':
            self.oblige(st, 'div0', self.cur_detail, ne(y, ZERO))
            r = go_div(x, y)
        elif op == '%':
            self.oblige(st, 'div0', self.cur_detail, ne(y, ZERO))
            r = go_mod(x, y)
        else:
            raise Unsupported('arith ' + op)
        return self.fit(st, r, tid, 'ovf')

    def fit(self, st, r, tid, kind):
        bn = self.prog.basic_name(tid)
        rng = S.INT_RANGES.get(bn)
        if rng is None:
            return r
        if r.is_int() and rng[0] <= r.val <= rng[1]:
            return r
        short = {'uint8': 'byte', 'int32': 'rune'}.get(bn, bn)
        if bn in self.wrap_types or short in self.wrap_types:
            m = rng[1] - rng[0] + 1
            if rng[0] == 0:
                return emod(r, I(m))
            return sub(emod(add(r, I(-rng[0])), I(m)), I(-rng[0]))
        if self.spec is not None and any(bn in x.replace(',', ' ').split() or short in x.replace(',', ' ').split() for x in self.spec.opts.get('mathint', [])):
            self.ctx.notes.append('%s: %s arithmetic/conversions treated as mathematical (declared by the contract: %s)' % (short_fn(self.fname), short, '; '.join(self.spec.opts['mathint'])))
            return r
        if bn in S.WIDE and not self.check_wide_ovf:
            self.ctx.notes.append('64-bit %s arithmetic treated as mathematical' % bn)
            return r
        self.oblige(st, kind, '%s:%s' % (self.cur_detail, bn), and_(le(I(rng[0]), r), le(r, I(rng[1]))))
        return r

    def do_binop(self, st, ins):
        op = ins['binop']
        tx = ins['x'].get('type')
        x, y = self.val(st, ins['x']), self.val(st, ins['y'])
        rt = ins['type']
        if op in ('==', '!='):
            ev = SpecEval(self, st, {}, None, 'binop')
            if isinstance(x, Opaque) or isinstance(y, Opaque):
                r = eq(self.scalar_term(x), self.scalar_term(y))
            elif isinstance(x, SliceV) and isinstance(y, SliceV):
                # only comparison with nil is legal for slices
                r = eq(x.arr, ZERO) if ins['y'].get('nil') else eq(y.arr, ZERO)
            else:
                r = ev.deep_eq(x, y)
            return r if op == '==' else not_(r)
        if isinstance(x, StrV):
            if op == '+':
                return self.str_concat(st, x, y)
            if op in ('<', '<=', '>', '>='):
                self.ctx.declare_fun('str.cmp', (INT, INT, INT, INT, INT, INT), INT)
                c = app('str.cmp', (x.arr, x.off, x.len, y.arr, y.off, y.len), INT)
                return {'<': lt, '<=': le, '>': gt, '>=': ge}[op](c, ZERO)
            raise Unsupported('string op ' + op)
        if isinstance(x, Opaque) or isinstance(y, Opaque):
            # float arithmetic etc.
            if op in ('<', '<=', '>', '>='):
                self.ctx.declare_fun('flt.' + op, (INT, INT), BOOL)
                return app('flt.' + op, (self.scalar_term(x), self.scalar_term(y)), BOOL)
            self.ctx.declare_fun('flt.' + op, (INT, INT), INT)
            return Opaque(app('flt.' + op, (self.scalar_term(x), self.scalar_term(y)), INT), rt)
        if x.sort == BOOL:
            if op == '&&' or op == '&':
                return and_(x, y)
            if op == '||' or op == '|':
                return or_(x, y)
            raise Unsupported('bool op ' + op)
        if op in ('<', '<=', '>', '>='):
            return {'<': lt, '<=': le, '>': gt, '>=': ge}[op](x, y)
        if op in ('+', '-', '*', '/', '%'):
            return self.arith_result(st, op, x, y, rt)
        if op in ('&', '|', '^', '<<', '>>', '&^'):
            r = self.bitop(op, x, y, rt)
            if op == '<<':
                return self.fit(st, r, rt, 'ovf')
            return r
        raise Unsupported('binop ' + op)

    def str_concat(self, st, x, y):
        if x.lit is not None and y.lit is not None:
            return self.string_lit(x.lit + y.lit)
        a = self.new_addr(st, 'cat')
        n = self.ctx.name('catlen', add(x.len, y.len))
        h = self.heap_get(st, 'HS:uint8', arr(ARR_II))
        for s_ in (x, y):
            if s_.lit is not None:
                self.strlit_bytes_fact(st, s_)
        k = const('k!', INT)
        ia = select(h, a)
        self.ctx.assume(implies(st.pc, forall([k], implies(and_(le(ZERO, k), lt(k, x.len)), eq(select(ia, k), select(select(h, x.arr), add(x.off, k)))), [select(ia, k)])))
        self.ctx.assume(implies(st.pc, forall([k], implies(and_(le(x.len, k), lt(k, n)), eq(select(ia, k), select(select(h, y.arr), add(y.off, sub(k, x.len))))), [select(ia, k)])))
        return StrV(a, ZERO, n)

    def do_unop(self, st, ins):
        op = ins['unop']
        x = self.val(st, ins['x'])
        if op == '*':
            a = self.resolve_ptr(st, x, self.cur_detail)
            v = self.load(st, a)
            if isinstance(v, Opaque) and a[0] == 'fld':
                v = Opaque(v.term, v.tid, ('field', a[2]))
            elif isinstance(v, Opaque) and ins['x'].get('k') == 'freevar':
                v = Opaque(v.term, v.tid, ('field', ins['x']['n']))      # a function value held in a captured variable
            if a[0] != 'cell' and self.addr_root(a)[0] != 'cell':
                v = self.named(self.regprefix(ins), v)
                self.assume_valid(v, ins['type'])
            return v
        if op == '!':
            return not_(x)
        if op == '-':
            if isinstance(x, Opaque):
                self.ctx.declare_fun('flt.neg', (INT,), INT)
                return Opaque(app('flt.neg', (x.term,), INT), x.tid)
            return self.fit(st, neg(x), ins['type'], 'ovf')
        if op == '^':
            rng = self.prog.int_range(ins['type'])
            if rng and rng[0] == 0:
                return sub(I(rng[1]), x)
            return sub(neg(x), ONE)
        if op == '<-':
            v = self.fresh_value('recv', ins['type'], True, st.alloc)
            return v
        raise Unsupported('unop ' + op)

    def void_tid(self):
        if '()' not in self.prog.types:
            self.prog.types['()'] = {'kind': 'tuple', 'elems': []}
        return '()'

    def regprefix(self, ins):
        return '%s' % ins.get('name', 'v')

    def do_convert(self, st, ins):
        x = self.val(st, ins['x'])
        src, dst = ins['x'].get('type'), ins['type']
        ks, kd = self.kind(src) if src else None, self.kind(dst)
        if isinstance(x, PtrV) and (kd == 'pointer' or self.T(dst).get('name') == 'Pointer' or 'unsafe.Pointer' in dst):
            if kd == 'pointer' and self.U(dst)['elem'] != x.elem and x.addr is not None or (kd == 'pointer' and x.elem and self.U(dst)['elem'] != x.elem):
                # unsafe reinterpretation of a slice header ([]byte <-> []rune): trusted idiom
                newelem = self.U(dst)['elem']
                if self.prog.basic_name(newelem) == 'uint64' and x.addr is not None and x.addr[0] == 'idx' and x.addr[2].is_int() and x.addr[2].val == 0 \
                        and self.prog.basic_name(x.addr[3]) == 'uint16':
                    # trusted idiom (result_x86.go): little-endian uint64 view of a [4]uint16
                    self.trusted.add('unsafe little-endian uint64 load of [4]uint16 (result_x86.go; amd64/386 are little-endian)')
                    return PtrV(None, newelem, ('cast64', x.addr[1]))
                if self.kind(newelem) == 'slice' and x.elem and self.kind(x.elem) == 'slice':
                    self.trusted.add('unsafe slice-header reinterpretation %s -> %s' % (self.prog.short(x.elem), self.prog.short(newelem)))
                    base = x.addr if x.addr is not None else ('obj', x.elem, x.term)
                    return PtrV(None, newelem, ('cast', base, newelem))
                raise Unsupported('unsafe pointer conversion %s -> %s' % (src, dst))
            return PtrV(x.term, x.elem if kd != 'pointer' else self.U(dst)['elem'], x.addr)
        if self.is_string(dst):
            if isinstance(x, StrV):
                return x
            if isinstance(x, SliceV):
                if self.elem_key(x.elem) == 'uint8':
                    return self.copy_bytes_to_string(st, x)
                # string([]rune): opaque encoding
                r_ = self.opaque_string(st, 'runes2str', [x.arr, x.off, x.len, select(self.heap_get(st, self.hs_name(x.elem), self.hs_sort(x.elem)), x.arr)])
                if 'nrunes' in self.specs.specfuncs:
                    # string([]rune) has exactly one character per rune (invalid runes become U+FFFD, still one)
                    h8_ = self.heap_get(st, 'HS:uint8', arr(ARR_II))
                    self.ctx.declare_fun('sf:nrunes', [ARR_II, INT, INT], INT)
                    self.ctx.assume(eq(app('sf:nrunes', (select(h8_, r_.arr), r_.off, r_.len), INT), x.len))
                # UTF-8: one to four bytes per rune, exactly one for ASCII
                self.ctx.assume(and_(le(x.len, r_.len), le(r_.len, mul(I(4), x.len))))
                if x.len.is_int() and x.len.val <= 8:
                    rh_ = select(self.heap_get(st, self.hs_name(x.elem), self.hs_sort(x.elem)), x.arr)
                    es_ = [select(rh_, add(x.off, I(i_))) for i_ in range(x.len.val)]
                    self.ctx.assume(implies(and_(*[and_(le(ZERO, e_), lt(e_, I(128))) for e_ in es_]), eq(r_.len, x.len)))
                return r_
            if isinstance(x, T):
                return self.opaque_string(st, 'rune2str', [x])
            raise Unsupported('convert to string from %r' % (x,))
        if kd == 'slice' and isinstance(x, StrV):
            e = self.U(dst)['elem']
            if self.elem_key(e) == 'uint8':
                return self.copy_string_to_bytes(st, x, e)
            # []rune(string): fresh rune slice, length <= byte length
            a = self.new_addr(st, 'runes')
            n = self.ctx.fresh('nrunes', INT)
            self.ctx.assume(and_(le(ZERO, n), le(n, x.len), implies(lt(ZERO, x.len), lt(ZERO, n))))
            h = self.heap_get(st, self.hs_name(e), self.hs_sort(e))
            k = const('k!', INT)
            self.ctx.assume(forall([k], implies(and_(le(ZERO, k), lt(k, n)), and_(le(ZERO, select(select(h, a), k)), le(select(select(h, a), k), I(0x10FFFF)))), [select(select(h, a), k)]))
            self.trusted.add('[]rune(string): length and rune-range facts only')
            if 'nrunes' in self.specs.specfuncs:
                h8_ = self.heap_get(st, 'HS:uint8', arr(ARR_II))
                self.ctx.declare_fun('sf:nrunes', [ARR_II, INT, INT], INT)
                self.ctx.assume(eq(n, app('sf:nrunes', (select(h8_, x.arr), x.off, x.len), INT)))
            return SliceV(a, ZERO, n, n, e)
        if isinstance(x, T) and x.sort == INT and self.prog.is_intlike(dst):
            return self.fit(st, x, dst, 'conv')
        if isinstance(x, T) and self.is_float(dst):
            self.ctx.declare_fun('int2flt', (INT,), INT)
            return Opaque(app('int2flt', (x,), INT), dst)
        if isinstance(x, Opaque) and self.prog.is_intlike(dst):
            self.ctx.declare_fun('flt2int', (INT,), INT)
            r = self.ctx.name('f2i', app('flt2int', (x.term,), INT))
            rng = self.prog.int_range(dst)
            if rng:
                self.ctx.assume(and_(le(I(rng[0]), r), le(r, I(rng[1]))))
            return r
        if isinstance(x, Opaque):
            return Opaque(x.term, dst)
        if isinstance(x, SliceV) and kd == 'slice':
            return x
        raise Unsupported('convert %s -> %s' % (src, dst))

    def opaque_string(self, st, fn_, args):
        sorts = [a.sort for a in args]
        self.ctx.declare_fun(fn_ + '.arr', sorts, INT)
        self.ctx.declare_fun(fn_ + '.len', sorts, INT)
        a = app(fn_ + '.arr', args, INT)
        n = app(fn_ + '.len', args, INT)
        self.ctx.assume(and_(lt(ZERO, a), le(ZERO, n)))
        return StrV(a, ZERO, n)

    def copy_bytes_to_string(self, st, x):
        a = self.new_addr(st, 'str')
        h = self.heap_get(st, 'HS:uint8', arr(ARR_II))
        k = const('k!', INT)
        # contents are copied; model by updating the heap at the fresh array with a shifted view
        fa = self.ctx.fresh('strdata', ARR_II)
        self.ctx.assume(forall([k], implies(and_(le(ZERO, k), lt(k, x.len)), eq(select(fa, k), select(select(h, x.arr), add(x.off, k)))), [select(fa, k)]))
        st.heap['HS:uint8'] = store(h, a, fa)
        return StrV(a, ZERO, x.len)

    def copy_string_to_bytes(self, st, x, e):
        a = self.new_addr(st, 'bytes')
        h = self.heap_get(st, 'HS:uint8', arr(ARR_II))
        if x.lit is not None:
            self.strlit_bytes_fact(st, x)
        k = const('k!', INT)
        fa = self.ctx.fresh('bytedata', ARR_II)
        self.ctx.assume(forall([k], implies(and_(le(ZERO, k), lt(k, x.len)), eq(select(fa, k), select(select(h, x.arr), add(x.off, k)))), [select(fa, k)]))
        st.heap['HS:uint8'] = store(h, a, fa)
        return SliceV(a, ZERO, x.len, x.len, e)

    def load(self, st, a):
        if a[0] == 'cast64':
            av = Exec.load(self, st, a[1])
            if not isinstance(av, ArrV) or len(av.elems) != 4:
                raise Unsupported('cast64 of %r' % (av,))
            e0, e1, e2, e3 = av.elems
            return add(e0, mul(I(1 << 16), e1), mul(I(1 << 32), e2), mul(I(1 << 48), e3))
        if a[0] == 'cast':
            v = Exec.load(self, st, a[1])
            if isinstance(v, SliceV):
                return SliceV(v.arr, v.off, v.len, v.cap, self.U(a[2])['elem'])
            raise Unsupported('cast load of %r' % (v,))
        return Exec.load(self, st, a)

    def do_indexaddr(self, st, ins):
        x = self.val(st, ins['x'])
        i = self.val(st, ins['index'])
        if isinstance(x, SliceV):
            self.oblige(st, 'idx', self.cur_detail, and_(le(ZERO, i), lt(i, x.len)))
            return PtrV(None, x.elem, ('sel', x, i, x.elem))
        if isinstance(x, PtrV):
            # pointer to array
            at = self.U(x.elem)
            if at['kind'] != 'array':
                raise Unsupported('IndexAddr on pointer to %s' % at['kind'])
            self.oblige(st, 'idx', self.cur_detail, and_(le(ZERO, i), lt(i, I(at['len']))))
            base = x.addr if x.addr is not None else ('obj', x.elem, x.term)
            if x.addr is None:
                self.oblige(st, 'nil', self.cur_detail, ne(x.term, ZERO))
            return PtrV(None, at['elem'], ('idx', base, i, at['elem']))
        raise Unsupported('IndexAddr on %r' % (x,))

    def do_fieldaddr(self, st, ins):
        x = self.val(st, ins['x'])
        if not isinstance(x, PtrV):
            raise Unsupported('FieldAddr on %r' % (x,))
        stid = x.elem
        f = self.struct_fields(stid)[ins['field']]
        if x.addr is not None:
            base = x.addr
        else:
            self.oblige(st, 'nil', self.cur_detail, ne(x.term, ZERO))
            base = ('obj', stid, x.term)
        return PtrV(None, f['type'], ('fld', base, f['name'], f['type'], stid))

    def ptr_term(self, st, v):
        """materialise a python-level address as an Int pointer value"""
        if v.term is not None:
            return v
        a = v.addr
        r = self.addr_root(a)
        if r[0] == 'cell':
            raise Unsupported('address of local cell escapes: %r' % (a,))
        if a[0] in ('obj', 'glob'):
            return PtrV(a[2], v.elem, None)
        if a[0] in ('fld', 'idx', 'sel'):
            et = a[3]
            if self.is_scalar(et) and a[0] == 'fld' and not self.is_string(et):
                # &s.f of a scalar field as a first-class pointer: loads and stores through pointers of this type
                # consider that it may designate this field (registered before execution, see scan_scalar_targets)
                key_ = self.elem_key(et)
                if (a[4], a[2], et) not in self.scalar_targets.get(key_, ()):
                    raise Unsupported('pointer to scalar field escapes and was not registered: %r' % (a,))
                return PtrV(self.addr_term(st, a), v.elem, None)
            if a[0] in ('idx', 'sel') and self.is_scalar(et):
                raise Unsupported('pointer to scalar field/element escapes: %r' % (a,))
            return PtrV(self.addr_term(st, a), v.elem, None)
        raise Unsupported('ptr_term %r' % (a,))

    def do_slice(self, st, ins):
        x = self.val(st, ins['x'])
        lo = self.val(st, ins['low']) if ins.get('low') else None
        hi = self.val(st, ins['high']) if ins.get('high') else None
        mx = self.val(st, ins['max']) if ins.get('max') else None
        if isinstance(x, StrV):
            lo_t = lo if lo is not None else ZERO
            hi_t = hi if hi is not None else x.len
            self.oblige(st, 'slice', self.cur_detail, and_(le(ZERO, lo_t), le(lo_t, hi_t), le(hi_t, x.len)))
            if x.lit is not None and lo_t.is_int() and hi_t.is_int():
                pass
            return StrV(x.arr, add(x.off, lo_t), sub(hi_t, lo_t))
        if isinstance(x, PtrV):
            at = self.U(x.elem)
            if at['kind'] != 'array':
                raise Unsupported('slice of pointer to non-array')
            base = x.addr if x.addr is not None else ('obj', x.elem, x.term)
            if self.addr_root(base)[0] == 'cell':
                raise Unsupported('slicing a local array')
            if self.small_arr(x.elem):
                raise Unsupported('slicing a small fixed array (stored per index)')
            a = self.addr_term(st, base)
            x = SliceV(a, ZERO, I(at['len']), I(at['len']), at['elem'])
        if not isinstance(x, SliceV):
            raise Unsupported('slice of %r' % (x,))
        lo_t = lo if lo is not None else ZERO
        hi_t = hi if hi is not None else x.len
        mx_t = mx if mx is not None else x.cap
        self.oblige(st, 'slice', self.cur_detail, and_(le(ZERO, lo_t), le(lo_t, hi_t), le(hi_t, mx_t), le(mx_t, x.cap)))
        return SliceV(x.arr, add(x.off, lo_t), sub(hi_t, lo_t), sub(mx_t, lo_t), x.elem)

    def do_makeslice(self, st, ins):
        n = self.val(st, ins['len'])
        cp = self.val(st, ins['cap'])
        e = self.U(ins['type'])['elem']
        self.oblige(st, 'makeslice', self.cur_detail, and_(le(ZERO, n), le(n, cp), le(cp, I(MAXLEN))))
        a = self.new_addr(st, 'mk')
        if self.is_scalar(e):
            name = self.hs_name(e)
            h = self.heap_get(st, name, self.hs_sort(e))
            zero = FALSE if self.is_bool(e) else ZERO
            st.heap[name] = store(h, a, constarr(arr(self.sort_of(e)), zero))
            if self.track_init:
                iname = 'INIT:' + self.elem_key(e)
                ih = self.heap_get(st, iname, arr(arr(BOOL)))
                st.heap[iname] = store(ih, a, constarr(ARR_IB, TRUE))
            if getattr(self, 'track_own', False) and ('OWN:' + self.elem_key(e)) in self.own_types:
                oh = self.heap_get(st, 'OWN:' + self.elem_key(e), arr(arr(BOOL)))
                st.heap['OWN:' + self.elem_key(e)] = store(oh, a, constarr(ARR_IB, FALSE))
        else:
            self.zero_elems(st, e, a)
        return SliceV(a, ZERO, n, cp, e)

    def zero_object(self, st, tid, a):
        """zero-initialise a fresh object at address a (large embedded arrays are described by quantified facts)"""
        k = self.kind(tid)
        if k == 'struct':
            for f in self.struct_fields(tid):
                ft = f['type']
                fk = self.kind(ft)
                if fk == 'array' and self.U(ft)['len'] > 16:
                    u = self.U(ft)
                    sa = self.subaddr(tid, f['name'], a)
                    if self.is_scalar(u['elem']):
                        nm = self.hs_name(u['elem'])
                        h = self.heap_get(st, nm, self.hs_sort(u['elem']))
                        st.heap[nm] = store(h, sa, constarr(arr(self.sort_of(u['elem'])), FALSE if self.is_bool(u['elem']) else ZERO))
                    else:
                        self.zero_elems(st, u['elem'], sa)
                elif fk == 'struct':
                    self.zero_object(st, ft, self.subaddr(tid, f['name'], a))
                else:
                    self.field_store(st, tid, a, f['name'], ft, self.zero(ft))
            return
        self.obj_store(st, tid, a, self.zero(tid))

    def zero_elems(self, st, e, a):
        """all elements of the fresh array a of aggregate type e are zero values (quantified per leaf heap)"""
        k = const('k!', INT)
        z = self.zero(e)
        p = self.elemaddr(a, k)

        def leafs(tid, v, addr, path_stid=None):
            kd = self.kind(tid)
            if kd == 'struct':
                for f in self.struct_fields(tid):
                    ft = f['type']
                    fv = v.f[f['name']]
                    if self.is_string(ft):
                        for s_, val in (('arr', fv.arr), ('off', fv.off), ('len', fv.len)):
                            self.zero_fact(st, 'HF:%s.%s.%s' % (self.tname(tid), f['name'], s_), INT, addr, val, k)
                    elif self.is_scalar(ft):
                        self.zero_fact(st, 'HF:%s.%s' % (self.tname(tid), f['name']), self.sort_of(ft), addr, self.scalar_term(fv), k)
                    elif self.kind(ft) == 'slice':
                        for s_ in ('arr', 'off', 'len', 'cap'):
                            self.zero_fact(st, 'HF:%s.%s.%s' % (self.tname(tid), f['name'], s_), INT, addr, ZERO, k)
                    elif self.kind(ft) == 'struct':
                        leafs(ft, fv, self.subaddr(tid, f['name'], addr))
                    elif self.small_arr(ft):
                        for j_ in range(self.U(ft)['len']):
                            self.zero_fact(st, 'HA:%s.%d' % (self.tname(ft), j_), self.sort_of(self.U(ft)['elem']), self.subaddr(tid, f['name'], addr), FALSE if self.is_bool(self.U(ft)['elem']) else ZERO, k)
                    else:
                        self.ctx.notes.append('zero-initialisation of %s.%s not modelled' % (self.tname(tid), f['name']))
            elif kd == 'slice':
                nm = 'HF:' + self.prog.short(tid) + '.'
                for s_ in ('arr', 'off', 'len', 'cap'):
                    self.zero_fact(st, nm + s_, INT, addr, ZERO, k)
            elif self.is_string(tid):
                for s_ in ('arr', 'off', 'len'):
                    self.zero_fact(st, 'HF:string.' + s_, INT, addr, ZERO, k)
            elif self.small_arr(tid):
                for j_ in range(self.U(tid)['len']):
                    self.zero_fact(st, 'HA:%s.%d' % (self.tname(tid), j_), self.sort_of(self.U(tid)['elem']), addr, FALSE if self.is_bool(self.U(tid)['elem']) else ZERO, k)
            else:
                self.ctx.notes.append('zero-initialisation of elements of type %s not modelled' % tid)
        leafs(e, z, p)

    def zero_fact(self, st, hname, sort, addr, val, k):
        h = self.heap_get(st, hname, arr(sort))
        self.ctx.assume(forall([k], eq(select(h, addr), val), [select(h, addr)]))

    # ------------------------------------------------------------------ calls
    def find_spec(self, callee):
        return self.resolver(callee) if self.resolver else self.specs.funcs.get(callee)

    def do_call(self, st, ins):
        c = ins['call']
        if c.get('invoke'):
            # interface method: assumed contract keyed by interface type and method name
            recv = self.val(st, c['value'])
            args = [recv] + [self.val(st, a) for a in c['args']]
            it = self.T(c['recvtype'])
            key = '%s::%s.%s' % (it.get('pkg', ''), it.get('name', c['recvtype']), c['invoke'])
            spec = self.specs.funcs.get(key)
            if spec is None or not spec.trusted:
                return self.unknown_call(st, ins, 'interface method %s' % key)
            return self.contract_call(st, ins, key, spec, args)
        fv = self.val(st, c['value'])
        args = [self.val(st, a) for a in c['args']]
        if isinstance(fv, Opaque):
            # call through a function value: allowed only as a declared effect
            if not (isinstance(fv.info, tuple) and fv.info and fv.info[0] == 'field'):
                # a local variable of function type (e.g. assigned one of two literals): the effect names the variable
                vn_ = self.local_func_name(c['value'])
                if vn_:
                    fv = Opaque(fv.term, fv.tid, ('field', vn_))
            return self.effect_call(st, ins, fv, args)
        if isinstance(fv, FuncV) and fv.name.startswith('builtin:'):
            return self.do_builtin(st, ins, fv.name[8:], args, c)
        if isinstance(fv, FuncV):
            callee = fv.name
            if callee == 'ssa:deferstack':
                return Opaque(ZERO, ins['type'])
            spec = self.find_spec(callee)
            if self.opts.get('inline') and callee in self.prog.funcs and not (spec is not None and spec.trusted):
                return self.inline_call(st, ins, callee, args, fv.bindings)
            if spec is None and callee in self.prog.funcs and self.prog.funcs[callee].get('parent') in (self.fname, getattr(self, 'root_fname', self.fname)) and not S.CFG(self.prog.funcs[callee]).loops:
                # a loop-free closure of this very function without its own contract: executed in place
                self.ctx.notes.append('closure %s executed in place (no separate contract)' % short_fn(callee))
                return self.inline_call(st, ins, callee, args, fv.bindings)
            if spec is None and callee in self.prog.funcs and not self.auto_pure(callee) and self.opts.get('depth', 0) < 3 \
                    and self.prog.funcs[callee].get('blocks') and not S.CFG(self.prog.funcs[callee]).loops \
                    and self.prog.funcs[callee].get('pkg') == self.fn.get('pkg') and callee != self.fname:
                # a loop-free function of the same package that has no contract (typically a small helper, or a piece
                # someone extracted from this function): executed in place, like a function literal
                self.ctx.notes.append('%s has no contract: executed in place at its call in %s' % (short_fn(callee), short_fn(self.fname)))
                return self.inline_call(st, ins, callee, args, fv.bindings)
            if spec is None:
                return self.unknown_call(st, ins, callee)
            return self.contract_call(st, ins, callee, spec, args, fv.bindings)
        return self.unknown_call(st, ins, 'dynamic call')

    def local_func_name(self, ref):
        """source name of the local variable a register was loaded from (None if it is not such a load)"""
        if not (isinstance(ref, dict) and ref.get('k') == 'reg'):
            return None
        if not hasattr(self, '_defs'):
            self._defs = {}
            for b in self.fn['blocks']:
                for i_ in b['instrs']:
                    if i_.get('name'):
                        self._defs[i_['name']] = i_
        d = self._defs.get(ref['n'])
        if d and d.get('op') == 'UnOp' and d.get('unop', d.get('operator')) in ('*', 'deref') or (d and d.get('op') == 'Load'):
            x = d.get('x') or d.get('addr')
            if isinstance(x, dict) and x.get('k') == 'reg':
                a = self.allocs.get(x['n'])
                if a and a.get('comment'):
                    return a['comment']
        return None

    def effect_check(self, st, kind, fv, what, args=None):
        """declared effects: //@ effect call|send <field> requires E"""
        fname = fv.info[1] if isinstance(fv, Opaque) and isinstance(fv.info, tuple) and fv.info[0] == 'field' else None
        decl = None
        for cl in (self.spec.effects if self.spec else []):
            mm = re.match(r'^(call|send)\s+([\w.]+)\s+requires\s+(.*)$', cl.text)
            if mm and mm.group(1) == kind and fname is not None and mm.group(2).split('.')[-1] == fname:
                decl = (cl, mm.group(3))
        if decl is None:
            raise Unsupported('%s through %s is not a declared effect (line %d)' % (kind, what if fname is None else fname, self.cur_line))
        cl, etxt = decl
        sets = None
        ms = re.match(r'^(.*?)\s+sets\s+own\(arg(\d+)\)\s*$', etxt)
        if ms:
            etxt, sets = ms.group(1), int(ms.group(2))
        self.effect_modifies = None
        self.effect_assumes = None
        self.effect_pure = False
        ma_ = re.match(r'^(.*?)\s+assumes\s+(.*)$', etxt)
        if ma_:
            etxt, self.effect_assumes = ma_.group(1), ma_.group(2)
        mp_ = re.match(r'^(.*?)\s+pure(\([\d, ]*\))?\s*$', etxt)
        if mp_:
            etxt, self.effect_pure = mp_.group(1), True
            self.effect_pure_args = [int(x) for x in mp_.group(2)[1:-1].replace(' ', '').split(',') if x] if mp_.group(2) else None
        mm2 = re.match(r'^(.*?)\s+modifies\s+arg(\d+)\s*$', etxt)
        if mm2:
            etxt, self.effect_modifies = mm2.group(1), int(mm2.group(2))
        env = dict(self.spec_env(self.scope_at_line(self.cur_line)))
        for i_, a_ in enumerate(args or []):
            env['arg%d' % i_] = a_
        t = SpecEval(self, st, env, self.old, cl.src).boolean(parse_expr(etxt))
        self.oblige(st, 'effect', '%s:%s' % (kind, fname), t, {'clause': '%s %s requires %s' % (kind, fname, etxt)}, cl.props)
        return sets

    def effect_call(self, st, ins, fv, args):
        sets = self.effect_check(st, 'call', fv, 'function value', args)
        # a ghost variable named calls_<field> counts the calls made through that function value
        if isinstance(fv, Opaque) and isinstance(fv.info, tuple) and fv.info[0] == 'field' and ('gv:calls_' + str(fv.info[1])) in st.ghost:
            st.ghost['gv:calls_' + fv.info[1]] = self.ctx.name('gv:calls_' + fv.info[1], add(st.ghost['gv:calls_' + fv.info[1]], ONE))
        if sets is not None and self.track_own and isinstance(args[sets], SliceV):
            # the consumer keeps the slice: its cells become owned
            a_ = args[sets]
            key = 'OWN:' + self.elem_key(a_.elem)
            oh = self.heap_get(st, key, arr(ARR_IB))
            ni = self.ctx.fresh('owned', ARR_IB)
            k = const('k!', INT)
            self.ctx.assume(forall([k], eq(select(ni, k), or_(and_(le(a_.off, k), lt(k, add(a_.off, a_.len))), select(select(oh, a_.arr), k))), [select(ni, k)]))
            st.heap[key] = store(oh, a_.arr, ni)
        rt = ins.get('type')
        na = self.ctx.fresh('alloc', INT)
        self.ctx.assume(le(st.alloc, na))
        st.alloc = na
        if getattr(self, 'effect_modifies', None) is not None:
            pv = args[self.effect_modifies]
            if isinstance(pv, PtrV):
                pv = self.ptr_term(st, pv)
                regs_ = self.object_regions(pv.elem, pv.term)
                self.check_call_frame(st, regs_)
                self.havoc_regions(st, regs_, 'effect')
        if rt and not (self.kind(rt) == 'tuple' and not self.U(rt)['elems']):
            res = self.fresh_value('r:effect', rt, True, None)
            self.bound_new_addrs(res, rt, st)
            if getattr(self, 'effect_pure', False):
                # the function value is deterministic: scalar results are a function of (function value, argument values)
                leaves = []
                self.scalar_leaves(res, leaves)
                flat = self.fv_flat(st, fv, args, getattr(self, 'effect_pure_args', None))
                for i_, lf in enumerate(leaves):
                    nm_ = 'fv.pure.%d' % i_
                    self.ctx.declare_fun(nm_ + '/' + str(len(flat)), [t_.sort for t_ in flat], lf.sort)
                    self.ctx.assume(implies(st.pc, eq(lf, app(nm_ + '/' + str(len(flat)), flat, lf.sort))))
                self.trusted.add('function values called as declared pure effects are deterministic functions of their arguments')
            if getattr(self, 'effect_assumes', None):
                env = dict(self.spec_env(self.scope_at_line(self.cur_line)))
                env['result'] = res
                if isinstance(res, TupleV):
                    for i_, e_ in enumerate(res.elems):
                        env['r%d' % i_] = e_
                for i_, a_ in enumerate(args):
                    env['arg%d' % i_] = a_
                t_ = SpecEval(self, st, env, self.old, 'effect assumes').boolean(parse_expr(self.effect_assumes))
                self.ctx.assume(implies(st.pc, t_))
                self.trusted.add('effect assumption on a function value: ' + self.effect_assumes)
            return res
        return None

    def fv_flat(self, st, fv, args, which=None):
        """argument list of the uninterpreted functions that stand for a pure function value's results"""
        flat = [self.scalar_term(fv)]
        for i_, a_ in enumerate(args):
            if which is not None and i_ not in which:
                continue
            self.flatten(self.snapshot(st, a_), flat)
        return flat

    def scalar_leaves(self, v, out):
        if isinstance(v, T):
            out.append(v)
        elif isinstance(v, StructV):
            for f in self.struct_fields(v.tid):
                self.scalar_leaves(v.f[f['name']], out)
        elif isinstance(v, TupleV):
            for e in v.elems:
                self.scalar_leaves(e, out)
        elif isinstance(v, ArrV):
            for e in v.elems:
                self.scalar_leaves(e, out)

    def object_regions(self, tid, p):
        """regions covering a whole object of type tid at address p, including nested structs and arrays of scalars"""
        regs = []
        k = self.kind(tid)
        if k == 'struct':
            regs.append(('obj', self.tname(tid), p, None))
            for f in self.struct_fields(tid):
                fk = self.kind(f['type'])
                if fk == 'struct':
                    regs += self.object_regions(f['type'], self.subaddr(tid, f['name'], p))
                elif fk == 'array':
                    u = self.U(f['type'])
                    sa = self.subaddr(tid, f['name'], p)
                    if self.small_arr(f['type']):
                        regs.append(('obj', self.tname(f['type']), sa, None))
                    elif self.is_scalar(u['elem']):
                        regs.append(('slice', self.elem_key(u['elem']), sa, ZERO, I(u['len'])))
                    else:
                        regs.append(('objs', u['elem'], sa, ZERO, I(u['len'])))
        else:
            regs.append(('obj', self.tname(tid), p, None))
        return regs

    # Standard-library functions that only compute on their arguments.  Without a contract in trusted.spec a
    # call is modelled as: no panic, no effect on memory the caller can see, an arbitrary valid result; a slice
    # result is nil or freshly allocated.  (Listed per function in the evidence.)
    PURE_PKGS = ('strings', 'strconv', 'unicode', 'unicode/utf8', 'errors', 'path/filepath', 'math')
    PURE_FUNCS = ('fmt.Sprintf', 'fmt.Sprint', 'fmt.Sprintln', 'fmt.Errorf', 'os.Getenv', 'os.LookupEnv')
    PURE_METHODS = ('(*regexp.Regexp).', '(*strings.Builder).', '(*strings.Replacer).')

    def auto_pure(self, what):
        if not isinstance(what, str) or ' ' in what:
            return False
        if what in self.PURE_FUNCS or what.startswith(self.PURE_METHODS):
            return True
        if what.startswith('('):
            return False
        pk = what.rsplit('.', 1)[0]
        return pk in self.PURE_PKGS

    def unknown_call(self, st, ins, what):
        if self.auto_pure(what) and not what.startswith('(*strings.Builder)'):
            self.trusted.add('%s modelled as a pure library function (no panic, no visible effect, arbitrary valid result)' % what)
            before = st.alloc
            na = self.ctx.fresh('alloc', INT)
            self.ctx.assume(le(before, na))
            st.alloc = na
            rt = ins.get('type')
            if not rt or (self.kind(rt) == 'tuple' and not self.U(rt)['elems']):
                return None
            res = self.fresh_value('r:' + short_fn(what), rt, True, None)
            self.bound_new_addrs(res, rt, st)
            for x in (res.elems if isinstance(res, TupleV) else [res]):
                if isinstance(x, SliceV):
                    self.ctx.assume(or_(eq(x.arr, ZERO), le(before, x.arr)))
            return res
        raise Unsupported('call of %s has no contract (line %d)' % (what, self.cur_line))

    def callee_sig(self, callee):
        f = self.prog.funcs.get(callee)
        if f is not None:
            return [p['name'] for p in f['params']], [p['type'] for p in f['params']], [r['name'] for r in f['results']], [r['type'] for r in f['results']], [p['name'] for p in f['freevars']]
        return None

    def contract_call(self, st, ins, callee, spec, args, bindings=()):
        self.callees.add(callee)
        for fn_, cl_ in getattr(self.spec, 'callsites', None) or []:
            if short_fn(callee) == fn_ or short_fn(callee).endswith('.' + fn_):
                self.env_line = self.cur_line
                try:
                    env_ = dict(self.spec_env(self.scope_at_line(self.cur_line)))
                finally:
                    self.env_line = None
                for i_, a_ in enumerate(args):
                    env_['arg%d' % i_] = a_
                t_ = SpecEval(self, st, env_, self.old, cl_.src).boolean(cl_.expr)
                self.oblige(st, 'callsite', fn_, t_, {'clause': 'callsite %s requires %s' % (fn_, cl_.text)}, cl_.props)
                self.callsites_hit = getattr(self, 'callsites_hit', set()) | {fn_}
        if spec.trusted:
            self.trusted.add('contract of %s (assumed)' % short_fn(callee))
        sig = self.callee_sig(callee)
        if sig is not None:
            pnames, ptypes, rnames, rtypes, fvnames = sig
        else:
            # external function: parameter names from spec 'params' option
            pn = spec.opts.get('params')
            if pn is None and not args:
                pn = []
            if pn is None or len(pn) != len(args):
                raise Unsupported('external callee %s: trusted.spec needs a params line with %d names' % (callee, len(args)))
            pnames, ptypes, rnames, fvnames = pn, [None] * len(pn), [], []
            rt_ = ins['type']
            rtypes = self.U(rt_)['elems'] if self.kind(rt_) == 'tuple' else ([rt_] if rt_ else [])
        env = {}
        for n, a in zip(pnames, args):
            env[n] = a
        for n, b in zip(fvnames, bindings):
            env[n] = b
        for on_, nn_ in ((getattr(self, 'alias_resolver', None) or (lambda c_: {}))(callee) or {}).items():
            if nn_ in env and on_ not in env:
                env[on_] = env[nn_]          # the callee's parameter was renamed since its contract was locked
        # preconditions
        for i, cl in enumerate(spec.requires):
            t = self.eval_clause(cl, st, env, None, 'pre of %s' % callee)
            self.oblige(st, 'pre', '%s.%d' % (short_fn(callee), i), t, {'clause': cl.text})
        pre_state = st.copy()
        alloc_before = st.alloc
        # callee may allocate
        regs = self.eval_regions(spec.modifies, st, env) if spec.modifies else []
        na = self.ctx.fresh('alloc', INT)
        self.ctx.assume(le(alloc_before, na))
        st.alloc = na
        # frame: havoc what the callee may modify
        if regs:
            self.check_call_frame(st, regs)
            if self.track_own:
                for r_ in regs:
                    if r_[0] == 'slice' and ('OWN:' + r_[1]) in self.own_types:
                        et_ = [t_ for t_ in self.prog.types if self.prog.types[t_]['kind'] == 'basic' and self.elem_key(t_) == r_[1]]
                        if et_:
                            self.own_check(st, et_[0], r_[2], r_[3], r_[4])
            self.havoc_regions(st, regs, 'call')
        # result
        rt = ins['type']
        if self.kind(rt) == 'tuple' and not self.U(rt)['elems']:
            res = None
        elif self.kind(rt) == 'tuple':
            res = self.fresh_value('r:' + short_fn(callee), rt, True, None)
        elif rtypes:
            res = self.fresh_value('r:' + short_fn(callee), rt, True, None)
        else:
            res = None
        self.bound_new_addrs(res, rt, st) if res is not None else None
        env2 = dict(env)
        if res is not None:
            env2['result'] = res
            if isinstance(res, TupleV):
                for i, e in enumerate(res.elems):
                    env2['r%d' % i] = e
                    if i < len(rnames) and rnames[i]:
                        env2[rnames[i]] = e
            elif rnames and rnames[0]:
                env2[rnames[0]] = res
        # ghost variables of the callee: their final values are unknown to the caller
        for g_ in spec.opts.get('ghost', []):
            if not g_.startswith('@'):
                env2[g_.split()[0]] = self.ctx.fresh('ghost:%s.%s' % (short_fn(callee), g_.split()[0]), INT)
        if 'pure' in spec.opts and res is not None:
            self.assume_pure(st, pre_state, callee, args, res)
        saved_alloc0, saved_oldenv = self.alloc0, self.old_env
        self.alloc0_call = alloc_before
        for cl in spec.ensures:
            if cl.props and 'trusted' in cl.props:
                self.trusted.add('clause assumed, not proved: %s ensures %s' % (short_fn(callee), cl.text))
            ev = SpecEval(self, st, env2, pre_state, 'post of %s' % callee)
            ev.no_expand = spec.trusted
            ev.fresh_base = (lambda ab: (lambda: ab))(alloc_before)
            ev.env_old = (lambda e_: (lambda: e_))(env)
            t = ev.boolean(cl.expr)
            self.ctx.assume(implies(st.pc, t))
        return res

    def pure_app(self, st, callee, args, idx, sort):
        flat = []
        for a in args:
            self.flatten(self.snapshot(st, a), flat)
        name = 'pure:%s.%d' % (short_fn(callee), idx)
        self.ctx.declare_fun(name, [t.sort for t in flat], sort)
        return app(name, flat, sort)

    def pure_slice(self, st, callee, args, idx, elem):
        flat = []
        for a in args:
            self.flatten(self.snapshot(st, a), flat)
        parts = []
        for s_ in ('arr', 'off', 'len'):
            name = 'pure:%s.%d.%s' % (short_fn(callee), idx, s_)
            self.ctx.declare_fun(name, [t.sort for t in flat], INT)
            parts.append(app(name, flat, INT))
        return SliceV(parts[0], parts[1], parts[2], parts[2], elem)

    def assume_pure(self, st, pre_state, callee, args, res):
        """a function marked pure (deterministic, modifies nothing): its scalar results are a function of its arguments"""
        vals = res.elems if isinstance(res, TupleV) else [res]
        for i, r in enumerate(vals):
            if isinstance(r, T):
                self.ctx.assume(implies(st.pc, eq(r, self.pure_app(pre_state, callee, args, i, r.sort))))
            elif isinstance(r, SliceV):
                pv = self.pure_slice(pre_state, callee, args, i, r.elem)
                self.ctx.assume(implies(st.pc, and_(eq(r.arr, pv.arr), eq(r.off, pv.off), eq(r.len, pv.len))))
            elif isinstance(r, StrV):
                pv = self.pure_slice(pre_state, callee, args, i, self.byte_tid())
                self.ctx.assume(implies(st.pc, and_(eq(r.arr, pv.arr), eq(r.off, pv.off), eq(r.len, pv.len))))
        self.trusted.add('%s is deterministic (pure): results are a function of the argument values' % short_fn(callee))

    def inline_call(self, st, ins, callee, args, bindings):
        """bounded mode: execute the callee's (unrolled) body instead of using its contract"""
        depth = self.opts.get('depth', 0)
        if depth > 12:
            raise Unsupported('inline depth exceeded at %s' % callee)
        opts = dict(self.opts)
        opts['shape'] = None
        opts['unroll'] = {}
        opts['depth'] = depth + 1
        sub_ = Verifier(self.prog, self.specs, callee, opts, resolver=self.resolver)
        sub_.ctx = self.ctx
        sub_.root_fname = getattr(self, 'root_fname', self.fname)
        sub_.spec = None
        sub_.alloc0 = self.alloc0
        sub_.old = self.old
        sub_.old_env = None
        sub_.writable = None
        sub_.track_init = self.track_init
        sub_.init_types = self.init_types
        sub_.wrap_types = self.wrap_types | set(w_ for s_ in ([self.find_spec(callee)] if self.find_spec(callee) else []) for x in s_.opts.get('wrap', []) for w_ in x.replace(',', ' ').split())
        sub_.expand_small_quants = True
        sub_.sf_memo = self.sf_memo
        sub_.inline_returns = []
        sub_.trusted = self.trusted
        fn = sub_.fn
        s2 = State()
        s2.pc = st.pc
        s2.heap = st.heap
        s2.alloc = st.alloc
        s2.ghost = st.ghost
        for p, a in zip(fn['params'], args):
            s2.regs['param:' + p['name']] = a
            sub_.param_vals[p['name']] = a
        for p, b in zip(fn['freevars'], bindings):
            s2.regs['free:' + p['name']] = b
        saved_name = self.ctx.fname
        self.ctx.fname = saved_name.split('>')[0] + '>' + short_fn(callee)
        try:
            sub_.exec_blocks(s2)
        finally:
            self.ctx.fname = saved_name
        rets = sub_.inline_returns
        if not rets:
            st.pc = FALSE
            return self.zero(ins['type']) if ins.get('type') and self.kind(ins['type']) != 'tuple' else None
        conds = [s.pc for s, v in rets]
        if len(rets) == 1:
            ms, mv = rets[0]
            st.pc, st.heap, st.alloc, st.ghost = ms.pc, ms.heap, ms.alloc, ms.ghost
            return mv
        st.pc = self.ctx.name('pcret', or_(*conds))
        hk = set()
        for s, v in rets:
            hk |= set(s.heap)
        nh = {}
        for k in hk:
            vals = [s.heap.get(k) if s.heap.get(k) is not None else self.heap_get(s, k, None) for s, v in rets]
            nh[k] = self.merge_values(conds, vals, 'H:' + k)
        st.heap = nh
        st.alloc = self.merge_values(conds, [s.alloc for s, v in rets], 'alloc')
        vals = [v for s, v in rets]
        if vals[0] is None:
            return None
        return self.merge_values(conds, vals, 'ret')

    def bound_new_addrs(self, v, tid, st):
        """addresses returned by a callee are allocated (< alloc after the call)"""
        c = self.ctx
        if isinstance(v, (SliceV, StrV)):
            c.assume(self.existed_v(v.arr, st.alloc))
        elif isinstance(v, PtrV) and v.term is not None:
            c.assume(self.existed_v(v.term, st.alloc))
        elif isinstance(v, StructV):
            for x in v.f.values():
                self.bound_new_addrs(x, None, st)
        elif isinstance(v, TupleV):
            for x in v.elems:
                self.bound_new_addrs(x, None, st)

    def check_call_frame(self, st, regs):
        """the callee's modifies set must lie inside what this function may write"""
        for frame, kind in [(self.writable, 'frame')] + [(lw, 'loopframe') for lw in self.loop_writes]:
            if frame is None:
                continue
            for r in regs:
                if r[0] == 'initbits':
                    continue
                if r[0] == 'slice':
                    k = const('fk!', INT)
                    n = self.ctx.counter.get('q:fk', 0)
                    self.ctx.counter['q:fk'] = n + 1
                    k = const('fk?%d' % n, INT)
                    c = forall([k], implies(and_(le(r[3], k), lt(k, r[4])), self.region_contains_elem(frame, r[1], r[2], k)))
                elif r[0] == 'obj':
                    c = self.region_contains_obj(frame, r[1], r[2], r[3])
                elif r[0] == 'objs':
                    c = or_(*([and_(eq(r[2], f[2]), le(f[3], r[3]), le(r[4], f[4])) for f in frame if f[0] == 'objs' and f[1] == r[1]]
                              + [ge(self.root_of(r[2]), f[1]) for f in frame if f[0] == 'fresh'] + [le(r[4], r[3])] + [TRUE for f in frame if f[0] == 'any']))
                elif r[0] == 'map':
                    c = or_(*([eq(r[1], f[1]) for f in frame if f[0] == 'map'] + [ge(r[1], f[1]) for f in frame if f[0] == 'fresh'] + [TRUE for f in frame if f[0] == 'any']))
                else:
                    c = B(any(f[0] == 'any' for f in frame))
                self.oblige(st, kind, 'call:' + self.cur_detail, c)

    def do_builtin(self, st, ins, name, args, c):
        if name == 'len':
            v = args[0]
            if isinstance(v, (SliceV, StrV)):
                return v.len
            if isinstance(v, ArrV):
                return I(len(v.elems))
            if isinstance(v, Opaque):
                return self.map_len(st, v)
            if isinstance(v, PtrV):
                return I(self.U(v.elem)['len'])
            raise Unsupported('len of %r' % (v,))
        if name == 'cap':
            v = args[0]
            if isinstance(v, SliceV):
                return v.cap
            raise Unsupported('cap of %r' % (v,))
        if name == 'append':
            return self.do_append(st, ins, args)
        if name == 'copy':
            return self.do_copy(st, ins, args)
        if name in ('min', 'max'):
            a, b = args
            return ite(le(a, b), a, b) if name == 'min' else ite(le(a, b), b, a)
        if name == 'ssa:wrapnilchk':
            return args[0]
        if name == 'ssa:deferstack':
            return Opaque(ZERO, ins['type'])
        if name == 'delete':
            return self.map_delete(st, args[0], args[1])
        if name in ('print', 'println'):
            return None
        if name == 'panic':
            self.oblige(st, 'panic', self.cur_detail, FALSE)
            return None
        if name == 'close':
            return None
        raise Unsupported('builtin ' + name)

    def map_len(self, st, m):
        h = self.heap_get(st, 'MAPN', ARR_II)
        n = select(h, m.term)
        self.ctx.assume(le(ZERO, n))
        try:
            key, u, leaves, hh = self.map_heaps(st, m)
            k = const('k!', INT)
            # an empty map has no keys
            self.ctx.assume(implies(eq(n, ZERO), forall([k], not_(select(select(hh, m.term), k)), [select(select(hh, m.term), k)])))
        except Unsupported:
            pass
        return n

    def map_delete(self, st, m, k):
        if not isinstance(m, Opaque):
            raise Unsupported('delete on %r' % (m,))
        key, u, leaves, hh = self.map_heaps(st, m)
        kt = self.map_key_term(st, u, k)
        # deleting from a nil map is a no-op
        if self.writable is not None:
            self.oblige(st, 'frame', 'map:' + self.cur_detail, or_(eq(m.term, ZERO), *([eq(m.term, r[1]) for r in self.writable if r[0] == 'map'] + [ge(m.term, r[1]) for r in self.writable if r[0] == 'fresh'] + [TRUE for r in self.writable if r[0] == 'any'])))
        present = select(select(hh, m.term), kt)
        hn = self.heap_get(st, 'MAPN', ARR_II)
        self.ctx.assume(implies(present, le(ONE, select(hn, m.term))))      # a map holding a key is not empty
        st.heap['MAPN'] = store(hn, m.term, ite(present, sub(select(hn, m.term), ONE), select(hn, m.term)))
        st.heap['MAPH:' + key] = store(hh, m.term, store(select(hh, m.term), kt, FALSE))
        return None

    def do_append(self, st, ins, args):
        s, t = args
        e = s.elem
        if isinstance(t, StrV):
            t = SliceV(t.arr, t.off, t.len, t.len, e)
        n = self.ctx.name('applen', add(s.len, t.len))
        fits = le(n, s.cap)
        if not self.is_scalar(e):
            return self.do_append_agg(st, ins, s, t, n, fits)
        name = self.hs_name(e)
        h = self.heap_get(st, name, self.hs_sort(e))
        k = const('k!', INT)
        if self.opts.get('ground'):
            return self.ground_append(st, s, t, n, fits, e, name, h)
        if t.len.is_int() and t.len.val == 1:
            # single-element append as one store at a conditional position: in place when it fits, else into a
            # fresh array whose (never observed) contents are assumed to be the copy of the old elements
            na = self.new_addr(st, 'app')
            newcap = self.ctx.fresh('appcap', INT)
            self.ctx.assume(and_(le(n, newcap), le(newcap, I(MAXLEN))))
            if self.writable is not None or any(w is not None for w in self.loop_writes):
                st2 = st.copy()
                st2.pc = and_(st.pc, fits)
                self.frame_check_elem(st2, e, s.arr, add(s.off, s.len))
            self.own_check(st, e, s.arr, add(s.off, s.len), add(s.off, s.len, ONE), fits)
            self.ctx.assume(forall([k], implies(and_(le(ZERO, k), lt(k, s.len)), eq(select(select(h, na), k), select(select(h, s.arr), add(s.off, k)))), [select(select(h, na), k)]))
            val_ = select(select(h, t.arr), t.off)
            darr = self.ctx.name('app.arr', ite(fits, s.arr, na))
            doff = self.ctx.name('app.off', ite(fits, s.off, ZERO))
            st.heap[name] = store(h, darr, store(select(h, darr), add(doff, s.len), val_))
            if self.track_init:
                iname = 'INIT:' + self.elem_key(e)
                ih = self.heap_get(st, iname, arr(arr(BOOL)))
                self.ctx.assume(forall([k], implies(and_(le(ZERO, k), lt(k, s.len)), eq(select(select(ih, na), k), select(select(ih, s.arr), add(s.off, k)))), [select(select(ih, na), k)]))
                st.heap[iname] = store(ih, darr, store(select(ih, darr), add(doff, s.len), TRUE))
            return SliceV(darr, doff, n, self.ctx.name('app.cap', ite(fits, s.cap, newcap)), e)
        # in-place branch: elements [s.off+s.len, s.off+n) of s.arr overwritten with t's elements (memmove semantics)
        self.own_check(st, e, s.arr, add(s.off, s.len), add(s.off, n), fits)
        na = self.new_addr(st, 'app')
        src_inner = select(h, t.arr)
        old_inner = select(h, s.arr)
        ip = self.ctx.fresh('appin', arr(self.sort_of(e)))
        base = add(s.off, s.len)
        self.ctx.assume(forall([k], eq(select(ip, k), ite(and_(le(base, k), lt(k, add(s.off, n))), select(src_inner, add(t.off, sub(k, base))), select(old_inner, k))), [select(ip, k)]))
        fr = self.ctx.fresh('appnew', arr(self.sort_of(e)))
        self.ctx.assume(forall([k], eq(select(fr, k), ite(and_(le(ZERO, k), lt(k, s.len)), select(old_inner, add(s.off, k)), ite(and_(le(s.len, k), lt(k, n)), select(src_inner, add(t.off, sub(k, s.len))), FALSE if self.is_bool(e) else ZERO))), [select(fr, k)]))
        newcap = self.ctx.fresh('appcap', INT)
        self.ctx.assume(and_(le(n, newcap), le(newcap, I(MAXLEN))))
        # frame check for in-place writes
        if (self.writable is not None or any(w is not None for w in self.loop_writes)) and not (t.len.is_int() and t.len.val == 0):
            st2 = st.copy()
            st2.pc = and_(st.pc, fits, lt(ZERO, t.len))
            kk = self.ctx.fresh('appk', INT)
            st2.pc = and_(st2.pc, le(base, kk), lt(kk, add(s.off, n)))
            self.frame_check_elem(st2, e, s.arr, kk)
        st.heap[name] = ite(fits, store(h, s.arr, ip), store(h, na, fr))
        if self.track_init:
            iname = 'INIT:' + self.elem_key(e)
            ih = self.heap_get(st, iname, arr(arr(BOOL)))
            ipi = self.ctx.fresh('appinit', ARR_IB)
            self.ctx.assume(forall([k], eq(select(ipi, k), or_(and_(le(base, k), lt(k, add(s.off, n))), select(select(ih, s.arr), k))), [select(ipi, k)]))
            st.heap[iname] = ite(fits, store(ih, s.arr, ipi), store(ih, na, constarr(ARR_IB, TRUE)))
        return SliceV(self.ctx.name('app.arr', ite(fits, s.arr, na)), self.ctx.name('app.off', ite(fits, s.off, ZERO)), n, self.ctx.name('app.cap', ite(fits, s.cap, newcap)), e)

    def ground_append(self, st, s, t, n, fits, e, name, h):
        """bounded mode: append as explicit element stores (no quantified array definitions)"""
        qmax = self.opts.get('qmax', 8)
        tl = t.len.val if t.len.is_int() else qmax
        sl = s.len.val if s.len.is_int() else qmax
        if not t.len.is_int():
            self.oblige(st, 'qbound', 'append', le(t.len, I(tl)), {'clause': 'append length within the bounded-mode expansion limit'})
        if not s.len.is_int():
            self.oblige(st, 'qbound', 'append', le(s.len, I(sl)), {'clause': 'append length within the bounded-mode expansion limit'})
        na = self.new_addr(st, 'app')
        src_inner = select(h, t.arr)
        old_inner = select(h, s.arr)
        zero = FALSE if self.is_bool(e) else ZERO
        # in place
        ip = old_inner
        for j in range(tl):
            di = add(s.off, s.len, I(j))
            ip = store(ip, di, ite(lt(I(j), t.len), select(src_inner, add(t.off, I(j))), select(old_inner, di)))
        # fresh array
        fr = constarr(arr(self.sort_of(e)), zero)
        for j in range(sl):
            fr = store(fr, I(j), ite(lt(I(j), s.len), select(old_inner, add(s.off, I(j))), zero))
        for j in range(tl):
            fr = store(fr, add(s.len, I(j)), ite(lt(I(j), t.len), select(src_inner, add(t.off, I(j))), zero))
        newcap = self.ctx.fresh('appcap', INT)
        self.ctx.assume(and_(le(n, newcap), le(newcap, I(MAXLEN))))
        st.heap[name] = ite(fits, store(h, s.arr, ip), store(h, na, fr))
        if self.track_init:
            iname = 'INIT:' + self.elem_key(e)
            ih = self.heap_get(st, iname, arr(arr(BOOL)))
            ii = select(ih, s.arr)
            for j in range(tl):
                di = add(s.off, s.len, I(j))
                ii = store(ii, di, or_(lt(I(j), t.len), select(select(ih, s.arr), di)))
            st.heap[iname] = ite(fits, store(ih, s.arr, ii), store(ih, na, constarr(ARR_IB, TRUE)))
        return SliceV(self.ctx.name('app.arr', ite(fits, s.arr, na)), self.ctx.name('app.off', ite(fits, s.off, ZERO)), n, self.ctx.name('app.cap', ite(fits, s.cap, newcap)), e)

    def do_append_agg(self, st, ins, s, t, n, fits):
        """append for slices whose elements are structs / slices / arrays: the appended (and, on reallocation, the
        old) elements are copied leaf by leaf; modelled as a havoc of the destination elements plus equalities"""
        e = s.elem
        pre = st.copy()
        na = self.new_addr(st, 'app')
        newcap = self.ctx.fresh('appcap', INT)
        self.ctx.assume(and_(le(n, newcap), le(newcap, I(MAXLEN))))
        darr = self.ctx.name('app.arr', ite(fits, s.arr, na))
        doff = self.ctx.name('app.off', ite(fits, s.off, ZERO))
        res = SliceV(darr, doff, n, self.ctx.name('app.cap', ite(fits, s.cap, newcap)), e)
        if t.len.is_int() and t.len.val == 1:
            # single-element append without any heap havoc: the fresh array's never-observed contents are chosen to be
            # the copy of the old elements (an assumption about fresh memory), then the new element is stored
            if self.writable is not None or any(w is not None for w in self.loop_writes):
                st2 = st.copy()
                st2.pc = and_(st.pc, fits)
                self.frame_check_obj(st2, self.elemaddr(s.arr, add(s.off, s.len)), e)
            ev = SpecEval(self, st, {}, None, 'append')
            nq = self.ctx.counter.get('q:ap', 0)
            self.ctx.counter['q:ap'] = nq + 1
            k = const('ap?%d' % nq, INT)
            cp_new = self.obj_load(st, e, self.elemaddr(na, k))
            cp_old = self.obj_load(st, e, self.elemaddr(s.arr, add(s.off, k)))
            self.ctx.assume(forall([k], implies(and_(le(ZERO, k), lt(k, s.len)), ev.ident_eq(cp_new, cp_old)), [self.elemaddr(na, k)]))
            # the same fact indexed (and triggered) by the old element
            k2 = const('aq?%d' % nq, INT)
            cp_new2 = self.obj_load(st, e, self.elemaddr(na, sub(k2, s.off)))
            cp_old2 = self.obj_load(st, e, self.elemaddr(s.arr, k2))
            self.ctx.assume(forall([k2], implies(and_(le(s.off, k2), lt(k2, add(s.off, s.len))), ev.ident_eq(cp_new2, cp_old2)), [self.elemaddr(s.arr, k2)]))
            val_ = self.obj_load(st, e, self.elemaddr(t.arr, t.off))
            dst = self.ctx.name('app.dst', ite(fits, self.elemaddr(s.arr, add(s.off, s.len)), self.elemaddr(na, s.len)))
            saved = self.writable, self.loop_writes
            self.writable, self.loop_writes = None, []
            self.obj_store(st, e, dst, val_)
            self.writable, self.loop_writes = saved
            return res
        # destination elements written: [doff + (fits ? s.len : 0), doff + n)
        lo = self.ctx.name('app.lo', add(doff, ite(fits, s.len, ZERO)))
        reg = ('objs', e, darr, lo, add(doff, n))
        if (self.writable is not None or any(w is not None for w in self.loop_writes)) and not (t.len.is_int() and t.len.val == 0):
            st2 = st.copy()
            kk = self.ctx.fresh('appk', INT)
            st2.pc = and_(st.pc, fits, le(add(s.off, s.len), kk), lt(kk, add(s.off, n)))
            self.frame_check_obj(st2, self.elemaddr(s.arr, kk), e)
        self.havoc_regions(st, [reg], 'app')
        ev = SpecEval(self, st, {}, None, 'append')
        # appended elements
        nq = self.ctx.counter.get('q:ap', 0)
        self.ctx.counter['q:ap'] = nq + 1
        k = const('ap?%d' % nq, INT)
        newv = self.obj_load(st, e, self.elemaddr(darr, add(doff, s.len, k)))
        oldv = self.obj_load(pre, e, self.elemaddr(t.arr, add(t.off, k)))
        self.ctx.assume(forall([k], implies(and_(le(ZERO, k), lt(k, t.len)), ev.ident_eq(newv, oldv)), [self.elemaddr(darr, add(doff, s.len, k))]))
        # kept elements when reallocated
        newv2 = self.obj_load(st, e, self.elemaddr(na, k))
        oldv2 = self.obj_load(pre, e, self.elemaddr(s.arr, add(s.off, k)))
        self.ctx.assume(implies(not_(fits), forall([k], implies(and_(le(ZERO, k), lt(k, s.len)), ev.ident_eq(newv2, oldv2)), [self.elemaddr(na, k)])))
        if t.len.is_int() and t.len.val == 1:
            # the common single-element append: state the fact without a quantifier as well
            nv = self.obj_load(st, e, self.elemaddr(darr, add(doff, s.len)))
            ov = self.obj_load(pre, e, self.elemaddr(t.arr, t.off))
            self.ctx.assume(ev.ident_eq(nv, ov))
        return res

    def do_copy(self, st, ins, args):
        d, s = args
        e = d.elem
        if isinstance(s, StrV):
            s = SliceV(s.arr, s.off, s.len, s.len, e)
        if not self.is_scalar(e):
            # elements that are structs / slices / arrays: the destination elements are havocked and stated equal,
            # leaf by leaf, to the source elements of the state before the copy
            n = self.ctx.name('copyn', ite(le(d.len, s.len), d.len, s.len))
            pre = st.copy()
            if self.writable is not None or any(w is not None for w in self.loop_writes):
                st2 = st.copy()
                kk = self.ctx.fresh('copyk', INT)
                st2.pc = and_(st.pc, le(d.off, kk), lt(kk, add(d.off, n)))
                self.frame_check_obj(st2, self.elemaddr(d.arr, kk), e)
            self.havoc_regions(st, [('objs', e, d.arr, d.off, add(d.off, n))], 'copy')
            ev = SpecEval(self, st, {}, None, 'copy')
            nq = self.ctx.counter.get('q:cp', 0)
            self.ctx.counter['q:cp'] = nq + 1
            k = const('cp?%d' % nq, INT)
            newv = self.obj_load(st, e, self.elemaddr(d.arr, add(d.off, k)))
            oldv = self.obj_load(pre, e, self.elemaddr(s.arr, add(s.off, k)))
            self.ctx.assume(forall([k], implies(and_(le(ZERO, k), lt(k, n)), ev.ident_eq(newv, oldv)), [self.elemaddr(d.arr, add(d.off, k))]))
            return n
        n = self.ctx.name('copyn', ite(le(d.len, s.len), d.len, s.len))
        self.own_check(st, e, d.arr, d.off, add(d.off, n))
        name = self.hs_name(e)
        h = self.heap_get(st, name, self.hs_sort(e))
        if self.opts.get('ground'):
            maxn = n.val if n.is_int() else self.opts.get('qmax', 8)
            if not n.is_int():
                self.oblige(st, 'qbound', 'copy', le(n, I(maxn)), {'clause': 'copy length within the bounded-mode expansion limit'})
            src_inner = select(h, s.arr)
            inner = select(h, d.arr)
            ih = self.heap_get(st, 'INIT:' + self.elem_key(e), arr(arr(BOOL))) if self.track_init else None
            iinner = select(ih, d.arr) if ih is not None else None
            for j in range(maxn):
                g_ = lt(I(j), n)
                di = add(d.off, I(j))
                inner = store(inner, di, ite(g_, select(src_inner, add(s.off, I(j))), select(select(h, d.arr), di)))
                if ih is not None:
                    iinner = store(iinner, di, ite(g_, select(select(ih, s.arr), add(s.off, I(j))), select(select(ih, d.arr), di)))
            st.heap[name] = store(h, d.arr, inner)
            if ih is not None:
                st.heap['INIT:' + self.elem_key(e)] = store(ih, d.arr, iinner)
            return n
        k = const('k!', INT)
        src_inner = select(h, s.arr)
        old_inner = select(h, d.arr)
        ni = self.ctx.fresh('copydata', arr(self.sort_of(e)))
        self.ctx.assume(forall([k], eq(select(ni, k), ite(and_(le(d.off, k), lt(k, add(d.off, n))), select(src_inner, add(s.off, sub(k, d.off))), select(old_inner, k))), [select(ni, k)]))
        if self.writable is not None or any(w is not None for w in self.loop_writes):
            st2 = st.copy()
            kk = self.ctx.fresh('copyk', INT)
            st2.pc = and_(st.pc, le(d.off, kk), lt(kk, add(d.off, n)))
            self.frame_check_elem(st2, e, d.arr, kk)
        st.heap[name] = store(h, d.arr, ni)
        if self.track_init:
            iname = 'INIT:' + self.elem_key(e)
            ih = self.heap_get(st, iname, arr(arr(BOOL)))
            nii = self.ctx.fresh('copyinit', ARR_IB)
            self.ctx.assume(forall([k], eq(select(nii, k), ite(and_(le(d.off, k), lt(k, add(d.off, n))), select(select(ih, s.arr), add(s.off, sub(k, d.off))), select(select(ih, d.arr), k))), [select(nii, k)]))
            st.heap[iname] = store(ih, d.arr, nii)
        return n

    # ------------------------------------------------------------------ one instruction
    def is_cut(self, line):
        spec = self.spec
        if not spec or not getattr(spec, 'cuts', None) or not line or self.opts.get('nocut'):
            return False
        if self.srclines is None:
            try:
                self.srclines = open(self.fn['file']).read().split('\n')
            except (IOError, KeyError):
                self.srclines = []
        if line - 1 >= len(self.srclines):
            return False
        ltext_ = self.srclines[line - 1]
        for on_, nn_ in (getattr(self, 'local_alias', None) or {}).items():
            ltext_ = re.sub(r'\b%s\b' % re.escape(nn_), on_, ltext_)
        for anchor, reason in spec.cuts:
            if anchor in ltext_:
                self.cut_reason = reason
                return True
        return False

    def anchors_at(self, st, line):
        spec = self.spec
        if not spec or not (getattr(spec, 'anchored', None) or getattr(self, 'ghost_updates', None)) or not line:
            return
        if self.srclines is None:
            try:
                self.srclines = open(self.fn['file']).read().split('\n')
            except (IOError, KeyError):
                self.srclines = []
        if line - 1 >= len(self.srclines):
            return
        text = self.srclines[line - 1]
        for on_, nn_ in (getattr(self, 'local_alias', None) or {}).items():
            # anchors quote source text: read the line with the old names
            text = re.sub(r'\b%s\b' % re.escape(nn_), on_, text)
        for anchor_, gname_, gexpr_ in getattr(self, 'ghost_updates', []):
            # (an assignment runs once when the path comes to the line from another line: a condition like
            #  `a && b` spreads one source line over several blocks)
            if anchor_ in text and st.ghost.get('py:line') != line:
                env = dict(self.spec_env(self.scope_at_line(line)))
                st.ghost['gv:' + gname_] = self.ctx.name('gv:' + gname_, SpecEval(self, st, env, self.old, 'ghost ' + gname_).term(parse_expr(gexpr_)))
        for cl in (getattr(spec, 'anchored', None) or []):
            if cl.anchor in text:
                scope = self.scope_at_line(line)
                self.env_line = line
                try:
                    env = dict(self.spec_env(scope))
                finally:
                    self.env_line = None
                # inside a range loop body, `cur` is the index of the element being processed
                for h_, lp_ in self.cfg.loops.items():
                    if lp_.ast and lp_.ast['line'] <= line <= lp_.ast['endline'] and lp_.ast.get('scope') is scope:
                        ri_ = self.range_index(h_)
                        if ri_ is not None and ri_[0] in st.cells:
                            env['cur'] = st.cells[ri_[0]]
                self.cur_detail = 'anchor'
                self.apply_use(cl, st, env)

    def ghost_after_line(self, st, line):
        if self.srclines is None:
            try:
                self.srclines = open(self.fn['file']).read().split('\n')
            except (IOError, KeyError):
                self.srclines = []
        if line - 1 >= len(self.srclines):
            return
        text = self.srclines[line - 1]
        for on_, nn_ in (getattr(self, 'local_alias', None) or {}).items():
            text = re.sub(r'\b%s\b' % re.escape(nn_), on_, text)
        for anchor_, gname_, gexpr_ in getattr(self, 'ghost_after', None) or []:
            if anchor_ in text:
                env = dict(self.spec_env(self.scope_at_line(line)))
                st.ghost['gv:' + gname_] = self.ctx.name('gv:' + gname_, SpecEval(self, st, env, self.old, 'ghost ' + gname_).term(parse_expr(gexpr_)))
        for anchor_, cl_, full_ in getattr(self.spec, 'libfacts', None) or []:
            if anchor_ in text:
                self.env_line = line
                try:
                    env = dict(self.spec_env(self.scope_at_line(line)))
                finally:
                    self.env_line = None
                self.ctx.assume(implies(st.pc, SpecEval(self, st, env, self.old, 'libfact').boolean(cl_.expr)))
                self.trusted.add('assumed fact about a library result in %s after `%s`: %s' % (short_fn(self.fname), anchor_, full_))
                self.libfacts_hit = getattr(self, 'libfacts_hit', set()) | {anchor_}

    def scope_at_line(self, line):
        best = None
        for lp in (self.fn.get('loops') or []):
            if lp['line'] <= line <= lp['endline']:
                if best is None or (lp['endline'] - lp['line']) < (best['endline'] - best['line']):
                    best = lp
        return best['scope'] if best else self.fn.get('scope_exit')

    def step(self, st, ins, blk):
        op = ins['op']
        ln = ins.get('line')
        if ln and ln != self.last_anchor_line.get(blk['index']):
            self.last_anchor_line[blk['index']] = ln
            self.anchors_at(st, ln)
        if ln and (getattr(self, 'ghost_after', None) or getattr(self.spec, 'libfacts', None)) and st.ghost.get('py:line') not in (None, ln):
            self.ghost_after_line(st, st.ghost['py:line'])
        if ln:
            st.ghost['py:line'] = ln
        self.cur_line = ins.get('line') or self.cur_line
        self.cur_detail = ins.get('name') or op
        self.cur_detail = self.detail_for(ins)
        r = None
        if op == 'Alloc':
            n = ins['name']
            if n in self.cellset:
                st.cells[n] = self.zero(ins['elem'])
                r = PtrV(None, ins['elem'], ('cell', n))
            else:
                a = self.new_addr(st, 'loc:' + (ins.get('comment') or n))
                saved = self.writable, self.loop_writes
                self.writable, self.loop_writes = None, []
                et_ = ins['elem']
                if self.kind(et_) == 'array' and self.is_scalar(self.U(et_)['elem']):
                    # (possibly large) zeroed array of scalars, e.g. the backing store of make([]byte, N) with constant N
                    ee = self.U(et_)['elem']
                    name_ = self.hs_name(ee)
                    h_ = self.heap_get(st, name_, self.hs_sort(ee))
                    st.heap[name_] = store(h_, a, constarr(arr(self.sort_of(ee)), FALSE if self.is_bool(ee) else ZERO))
                    if self.track_init:
                        ih_ = self.heap_get(st, 'INIT:' + self.elem_key(ee), arr(arr(BOOL)))
                        st.heap['INIT:' + self.elem_key(ee)] = store(ih_, a, constarr(ARR_IB, TRUE))
                    if getattr(self, 'track_own', False) and ('OWN:' + self.elem_key(ee)) in self.own_types:
                        oh_ = self.heap_get(st, 'OWN:' + self.elem_key(ee), arr(arr(BOOL)))
                        st.heap['OWN:' + self.elem_key(ee)] = store(oh_, a, constarr(ARR_IB, FALSE))
                else:
                    self.zero_object(st, et_, a)
                self.writable, self.loop_writes = saved
                r = PtrV(a, ins['elem'])
        elif op == 'Store':
            a = self.resolve_ptr(st, self.val(st, ins['addr']), 'store')
            v = self.val(st, ins['val'])
            conc = self.opts.get('concretize')
            if conc and a[0] == 'cell' and self.opts.get('depth', 0) == 0 and isinstance(v, T) and v.sort == INT:
                cname = self.cellinfo[a[1]][0]
                if cname in conc and (a[1], 'done') not in self.conc_done:
                    # bounded mode case split: this run covers the case where the stored value equals the given constant
                    self.conc_done.add((a[1], 'done'))
                    cv = I(conc[cname])
                    st.pc = self.ctx.name('pcsplit', and_(st.pc, eq(v, cv)))
                    v = cv
            if isinstance(v, PtrV) and v.term is None and a[0] != 'cell':
                v = self.ptr_term(st, v)
            self.store(st, a, v)
            return
        elif op == 'UnOp':
            r = self.do_unop(st, ins)
        elif op == 'BinOp':
            r = self.do_binop(st, ins)
        elif op == 'Convert':
            r = self.do_convert(st, ins)
        elif op in ('ChangeType',):
            r = self.val(st, ins['x'])
        elif op == 'Call':
            r = self.do_call(st, ins)
        elif op == 'IndexAddr':
            r = self.do_indexaddr(st, ins)
        elif op == 'FieldAddr':
            r = self.do_fieldaddr(st, ins)
        elif op == 'Field':
            x = self.val(st, ins['x'])
            f = self.struct_fields(ins['x']['type'])[ins['field']]
            r = x.f[f['name']]
        elif op == 'Index':
            x = self.val(st, ins['x'])
            i = self.val(st, ins['index'])
            if isinstance(x, ArrV):
                self.oblige(st, 'idx', self.cur_detail, and_(le(ZERO, i), lt(i, I(len(x.elems)))))
                r = self.arr_select(x, i)
            elif isinstance(x, StrV):
                self.oblige(st, 'idx', self.cur_detail, and_(le(ZERO, i), lt(i, x.len)))
                h = self.heap_get(st, 'HS:uint8', arr(ARR_II))
                self.strlit_bytes_fact(st, x)
                r = select(select(h, x.arr), add(x.off, i))
                if r.op not in ('int',):
                    r = self.ctx.name(ins.get('name', 'b'), r)
                    self.ctx.assume(and_(le(ZERO, r), le(r, I(255))))
            else:
                raise Unsupported('Index on %r' % (x,))
        elif op == 'Lookup':
            x = self.val(st, ins['x'])
            i = self.val(st, ins['index'])
            if isinstance(x, StrV):
                self.oblige(st, 'idx', self.cur_detail, and_(le(ZERO, i), lt(i, x.len)))
                h = self.heap_get(st, 'HS:uint8', arr(ARR_II))
                self.strlit_bytes_fact(st, x)
                r = select(select(h, x.arr), add(x.off, i))
            else:
                r = self.map_lookup(st, ins, x, i)
        elif op == 'Slice':
            r = self.do_slice(st, ins)
        elif op == 'MakeSlice':
            r = self.do_makeslice(st, ins)
        elif op == 'Extract':
            r = self.val(st, ins['x']).elems[ins['index']]
        elif op == 'Phi':
            raise Unsupported('phi handled at block entry')
        elif op == 'MakeInterface':
            x = self.val(st, ins['x'])
            r = Opaque(self.ctx.fresh('iface', INT), ins['type'], x)
            self.ctx.assume(lt(ZERO, r.term))
        elif op == 'ChangeInterface':
            r = self.val(st, ins['x'])
        elif op == 'MakeClosure':
            f = self.val(st, ins['fn'])
            r = FuncV(f.name, [self.val(st, b) for b in ins['bindings']])
        elif op == 'MakeMap':
            a = self.new_addr(st, 'map')
            h = self.heap_get(st, 'MAPN', ARR_II)
            st.heap['MAPN'] = store(h, a, ZERO)
            r = Opaque(a, ins['type'])
            try:
                key_, u_, leaves_, hh_ = self.map_heaps(st, r)
                st.heap['MAPH:' + key_] = store(hh_, a, constarr(ARR_IB, FALSE))
            except Unsupported:
                pass
        elif op == 'MapUpdate':
            self.map_update(st, ins)
            return
        elif op == 'TypeAssert':
            x = self.val(st, ins['x'])
            v = self.fresh_value('ta', ins['asserted'], True, st.alloc)
            if ins.get('commaok'):
                r = TupleV([v, self.ctx.fresh('taok', BOOL)])
            else:
                raise Unsupported('type assertion without ok')
        elif op == 'Range' or op == 'Next':
            r = self.do_range(st, ins)
        elif op == 'RunDefers':
            # deferred calls recorded so far run in reverse order (a defer inside a branch is run on every path
            # that reaches the function exit: an over-approximation, listed in the notes)
            for di_, dins in reversed(list(enumerate(self.defers))):
                flag = st.ghost.get('defer:%d' % di_)
                if flag is None or (isinstance(flag, T) and flag.is_bool() and not flag.val):
                    continue          # this exit path does not pass the defer statement
                if not (isinstance(flag, T) and flag.is_bool() and flag.val):
                    raise Unsupported('a defer statement that only some of the merged paths passed')
                self.cur_detail = 'defer'
                self.do_call(st, dins)
            return
        elif op == 'Defer':
            key_ = (ins.get('line'), ins.get('col'), blk['index'])
            ids_ = [i_ for i_, d_ in enumerate(self.defers) if d_.get('key') == key_]
            if ids_:
                di_ = ids_[0]
            else:
                di_ = len(self.defers)
                self.defers.append({'op': 'Call', 'call': ins['call'], 'type': self.void_tid(), 'line': ins.get('line'), 'name': '', 'key': key_})
            st.ghost['defer:%d' % di_] = TRUE
            return
        elif op == 'Go' or op == 'Select' or op == 'Send' or op == 'MakeChan':
            r = self.do_effect(st, ins)
        elif op == 'SliceToArrayPointer' or op == 'MultiConvert':
            raise Unsupported(op)
        else:
            raise Unsupported('instruction ' + op)
        if ins.get('name'):
            if r is not None and op not in ('Alloc', 'IndexAddr', 'FieldAddr'):
                r = self.named(ins['name'], r)
            st.regs[ins['name']] = r

    def detail_for(self, ins):
        """stable, line-free description of an instruction for obligation names"""
        op = ins['op']
        if op in ('IndexAddr', 'Index', 'Lookup'):
            return 'idx[%s]' % self.opname(ins.get('index'))
        if op == 'Slice':
            return 'slice'
        if op == 'BinOp':
            return ins['binop']
        if op == 'UnOp':
            return 'load' if ins['unop'] == '*' else ins['unop']
        if op == 'Store':
            return 'store'
        if op == 'Call':
            c = ins['call']
            return 'call:' + short_fn(c.get('static') or c.get('invoke') or 'dyn')
        return op.lower()

    def opname(self, v):
        if v is None:
            return ''
        if v['k'] == 'const':
            return str(v.get('v'))
        return ''

    def map_lookup(self, st, ins, m, k):
        if not isinstance(m, Opaque):
            raise Unsupported('lookup on %r' % (m,))
        key, u, leaves, hh = self.map_heaps(st, m)
        kt = self.map_key_term(st, u, k)
        v = self.map_read(st, m, kt)
        if isinstance(v, T):
            v = self.ctx.name(ins.get('name', 'mv'), v)
            self.assume_valid(v, u['elem'])
        if ins.get('commaok'):
            return TupleV([v, select(select(hh, m.term), kt)])
        return v

    def map_update(self, st, ins):
        m = self.val(st, ins['map'])
        k = self.val(st, ins['key'])
        val_ = self.val(st, ins['value'])
        if not isinstance(m, Opaque):
            raise Unsupported('map update on %r' % (m,))
        self.oblige(st, 'nil', 'mapupdate', ne(m.term, ZERO))
        key, u, leaves, hh = self.map_heaps(st, m)
        kt = self.map_key_term(st, u, k)
        if self.writable is not None:
            self.oblige(st, 'frame', 'map:' + self.cur_detail, or_(*([eq(m.term, r[1]) for r in self.writable if r[0] == 'map'] + [ge(m.term, r[1]) for r in self.writable if r[0] == 'fresh'] + [TRUE for r in self.writable if r[0] == 'any'])))
        present = select(select(hh, m.term), kt)
        hn = self.heap_get(st, 'MAPN', ARR_II)
        st.heap['MAPN'] = store(hn, m.term, ite(present, select(hn, m.term), add(select(hn, m.term), ONE)))
        st.heap['MAPH:' + key] = store(hh, m.term, store(select(hh, m.term), kt, TRUE))
        if leaves is None:
            pass
        elif self.is_string(u['elem']):
            for s in ('arr', 'off', 'len'):
                nm = 'MAPV:%s.%s' % (key, s)
                st.heap[nm] = store(leaves[s], m.term, store(select(leaves[s], m.term), kt, getattr(val_, s)))
        elif leaves:
            nm = 'MAPV:' + key
            st.heap[nm] = store(leaves[''], m.term, store(select(leaves[''], m.term), kt, self.scalar_term(val_)))

    def do_range(self, st, ins):
        raise Unsupported('range over string/map')

    def do_effect(self, st, ins):
        op = ins['op']
        if op == 'Send':
            ch = self.val(st, ins['chan'])
            self.effect_check(st, 'send', ch, 'channel')
            return None
        if op == 'Select':
            # every send case is a potential effect; which case fires and what is received is arbitrary
            for s_ in ins['states']:
                if s_['dir'] == 1:      # types.SendOnly
                    self.effect_check(st, 'send', self.val(st, s_['chan']), 'channel')
            r_ = self.fresh_value('sel', ins['type'], True, st.alloc)
            idx_ = r_.elems[0]
            n_ = len(ins['states'])
            self.ctx.assume(and_(le(ZERO if ins.get('blocking') else I(-1), idx_), lt(idx_, I(n_))))
            return r_
        if op == 'MakeChan':
            a = self.new_addr(st, 'chan')
            return Opaque(a, ins['type'])
        raise Unsupported('effect instruction ' + op)

    # ------------------------------------------------------------------ driver
    def run(self):
        fn = self.fn
        c = self.ctx
        st = State()
        self.alloc0 = c.declare_const('alloc0', INT)
        c.assume(lt(ONE, self.alloc0))
        st.alloc = self.alloc0
        for gn_ in getattr(self, 'ghost_vars', []):
            st.ghost['gv:' + gn_] = ZERO
        for p in fn['params']:
            v = self.fresh_value('p:' + p['name'], p['type'])
            if isinstance(v, Opaque) and self.kind(p['type']) in ('func', 'chan'):
                v = Opaque(v.term, v.tid, ('field', p['name']))
            st.regs['param:' + p['name']] = v
            self.param_vals[p['name']] = v
        fvs_ = []
        for p in fn['freevars']:
            v = self.fresh_value('fv:' + p['name'], p['type'])
            st.regs['free:' + p['name']] = v
            if isinstance(v, PtrV) and v.term is not None:
                # captured variables are distinct, allocated objects
                c.assume(lt(ZERO, v.term))
                for w in fvs_:
                    c.assume(ne(v.term, w))
                fvs_.append(v.term)
        spec = self.spec
        self.start_block = 0
        if spec and spec.opts.get('region'):
            self.region_entry(st, spec.opts['region'][0])
        shape = self.opts.get('shape')
        if shape:
            self.expand_small_quants = True
            self.apply_shape(st, shape)
        if self.track_init and spec:
            for t in spec.opts.get('track', []):
                for w in t.replace(',', ' ').split():
                    if w != 'init':
                        self.init_types.add('INIT:' + w)
        self.old = State()     # placeholder so heap_get can register initial heaps
        self.old.heap = {}
        eenv = self.entry_env()
        if self.start_block:
            eenv = dict(self.spec_env(self.scope_at_line(self.region_line)))
        self.old_env = eenv
        # global invariants / axioms
        for ax in self.specs.axioms:
            try:
                c.assume(self.eval_clause(ax, st, {}, None, 'axiom'))
                self.trusted.add('axiom: ' + ax.text)
            except SpecError:
                pass
        self.nreq = 0
        for gi in self.specs.globalinvs:
            if gi.pkg == fn['pkg'] and not (spec and 'noglobalinv' in spec.opts.get('entry', [])):
                c.assume(self.eval_clause(gi, st, {}, None, 'globalinv'))
        if spec:
            for cl in spec.requires:
                c.assume(self.eval_clause(cl, st, eenv, None))
                self.nreq += 1
                if self.start_block:
                    self.trusted.add('assumed about the state in which %s reaches `%s`: %s' % (short_fn(self.fname), spec.opts['region'][0], cl.text))
        # snapshot entry state for old()
        old = st.copy()
        self.old = old
        for rv_ in (spec.opts.get('reveal', []) if spec else []):
            for nm_ in rv_.replace(',', ' ').split():
                self.reveal_specfun(nm_, st)
        self.entry_nassert = len(c.asserts)
        if spec:
            self.writable = self.eval_regions(spec.modifies or [], st, eenv) + [('fresh', self.alloc0)]
        self.exec_blocks(st)
        return c

    def region_entry(self, st, anchor):
        """`func F region @"text"`: execution starts at the block that begins with the statement quoting the text.
        Everything computed before it is unknown: locals and temporaries defined outside the region get arbitrary
        (type-valid) values, the heaps are the arbitrary initial heaps."""
        fn = self.fn
        if anchor == '<body>':
            # the whole body under a second contract (the first one is what callers see)
            self.ctx.notes.append('%s: the body is verified against a second contract of its own' % short_fn(self.fname))
            return
        src = open(fn['file']).read().split('\n')
        lines_ = sorted(set(ins.get('line') for b in fn['blocks'] for ins in b['instrs'] if ins.get('line')))
        cand = [l for l in lines_ if l - 1 < len(src) and anchor in src[l - 1]]
        if len(cand) != 1:
            raise SpecError('region anchor %r matches %d statements of %s' % (anchor, len(cand), short_fn(self.fname)))
        line = cand[0]
        start = None
        for bi, b in enumerate(fn['blocks']):
            first = [ins.get('line') for ins in b['instrs'] if ins.get('line')]
            if first and first[0] == line and (start is None):
                start = bi
        if start is None:
            raise SpecError('region anchor %r is not at the start of a basic block' % anchor)
        self.start_block = start
        self.region_line = line
        # blocks of the region: reachable from the start block
        reach, work = set([start]), [start]
        while work:
            x = work.pop()
            for s in self.cfg.succs[x]:
                if s not in reach:
                    reach.add(s)
                    work.append(s)
        self.region_blocks = reach
        defined = set()
        for bi in reach:
            for ins in fn['blocks'][bi]['instrs']:
                if ins.get('name'):
                    defined.add(ins['name'])
        outside = {}

        def note(v):
            if isinstance(v, dict) and v.get('k') == 'reg' and v['n'] not in defined:
                outside.setdefault(v['n'], v)
            elif isinstance(v, dict):
                for w in v.values():
                    note(w)
            elif isinstance(v, list):
                for w in v:
                    note(w)
        for bi in reach:
            for ins in fn['blocks'][bi]['instrs']:
                note(ins)
        # a parameter's spill slot that is written only by the entry block holds the parameter
        nstores, spill = {}, {}
        for bi, b in enumerate(fn['blocks']):
            for ins in b['instrs']:
                if ins.get('op') == 'Store' and ins['addr'].get('k') == 'reg':
                    nstores[ins['addr']['n']] = nstores.get(ins['addr']['n'], 0) + 1
                    if bi == 0 and ins['val'].get('k') == 'param':
                        spill[ins['addr']['n']] = ins['val']['n']
        self.region_spill = dict((n, pn) for n, pn in spill.items() if nstores.get(n) == 1 and pn in self.param_vals)
        addrs = []
        for n, ref in sorted(outside.items()):
            if n in self.allocs:
                a = self.allocs[n]
                if n in self.cellset:
                    v_ = self.fresh_value('lv:%s' % (a.get('comment') or n), a['elem'])
                    if n in self.region_spill:
                        v_ = self.param_vals[self.region_spill[n]]
                    if isinstance(v_, Opaque) and self.kind(a['elem']) in ('func', 'chan') and a.get('comment'):
                        v_ = Opaque(v_.term, v_.tid, ('field', a['comment']))     # effects name it by the variable
                    st.cells[n] = v_
                    st.regs[n] = PtrV(None, a['elem'], ('cell', n))
                else:
                    pa = self.ctx.declare_const('loc:%s' % (a.get('comment') or n), INT)
                    self.ctx.assume(and_(lt(ZERO, pa), lt(pa, self.alloc0)))
                    for w in addrs:
                        self.ctx.assume(ne(pa, w))
                    addrs.append(pa)
                    st.regs[n] = PtrV(pa, a['elem'])
            else:
                tid = ref.get('type')
                if tid is None:
                    raise Unsupported('region: value %s defined before the region has no recorded type' % n)
                st.regs[n] = self.fresh_value('rv:' + n, tid)
        for n in self.cellset:
            # cells declared before the region but only used in spec expressions
            if n not in st.cells and n not in defined:
                a = self.allocs[n]
                st.cells[n] = self.param_vals[self.region_spill[n]] if n in self.region_spill else self.fresh_value('lv:%s' % (a.get('comment') or n), a['elem'])
        for n, a in sorted(self.allocs.items()):
            # the same for locals that live in the heap (captured by a function literal somewhere)
            if n not in self.cellset and n not in defined and n not in st.regs and a.get('comment'):
                pa = self.ctx.declare_const('loc:%s.%s' % (a['comment'], n), INT)
                self.ctx.assume(and_(lt(ZERO, pa), lt(pa, self.alloc0)))
                for w in addrs:
                    self.ctx.assume(ne(pa, w))
                addrs.append(pa)
                st.regs[n] = PtrV(pa, a['elem'])
        self.ctx.notes.append('%s: only the part from `%s` (line %d) on is verified, from an arbitrary state satisfying the requires clauses' % (short_fn(self.fname), anchor, line))

    def exec_blocks(self, st0):
        cfg = self.cfg
        blocks = cfg.blocks
        # forward edges only
        isback = set()
        for h, lp in cfg.loops.items():
            for b in lp.backedges:
                isback.add((b, h))
        order = [b for b in cfg.rpo]
        out = {}       # (pred, succ) -> State (with pc including the edge condition)
        self.loopctx = {}
        for b in order:
            if b == getattr(self, 'start_block', 0):
                st = st0
            else:
                ins_ = [(p, out.get((p, b))) for p in cfg.preds[b] if (p, b) not in isback]
                ins_ = [(p, s) for p, s in ins_ if s is not None]
                if not ins_:
                    continue
                st = self.merge_states(b, ins_)
                if st is None:
                    continue
            if b in cfg.loops:
                st = self.enter_loop(b, st)
            self.loop_writes = [self.loopctx[h][4] for h, lp in cfg.loops.items() if b in lp.body and h in self.loopctx]
            self.exec_block(b, st, out, isback)

    def phi_stale(self, b, ins, st):
        return b in self.live_pred

    def merge_states(self, b, ins_):
        blk = self.cfg.blocks[b]
        phis = [i for i in blk['instrs'] if i['op'] == 'Phi']
        preds = self.cfg.preds[b]
        self.live_pred.pop(b, None)
        if len(ins_) == 1:
            s = ins_[0][1].copy()
            if phis:
                self.live_pred[b] = ins_[0][0]
            return s
        conds = [s.pc for _, s in ins_]
        pc = self.ctx.name('pc%d' % b, or_(*conds))
        if pc.is_bool() and not pc.val:
            return None
        st = State()
        st.pc = pc
        first = ins_[0][1]
        # registers
        keys = set()
        for _, s in ins_:
            keys |= set(s.regs)
        for k in keys:
            vals = [s.regs.get(k) for _, s in ins_]
            if all(v is None for v in vals):
                st.regs[k] = None
                continue
            if any(v is None for v in vals):
                # defined on some paths only: keep one (use is dominated by def on those paths)
                vs = [v for v in vals if v is not None]
                cs = [c_ for c_, v in zip(conds, vals) if v is not None]
                try:
                    st.regs[k] = self.merge_values(cs, vs, k)
                except Unsupported:
                    pass
                continue
            try:
                st.regs[k] = self.merge_values(conds, vals, k)
            except Unsupported:
                pass
        ckeys = set()
        for _, s in ins_:
            ckeys |= set(s.cells)
        for k in ckeys:
            vals = [s.cells.get(k) for _, s in ins_]
            vs = [v for v in vals if v is not None]
            cs = [c_ for c_, v in zip(conds, vals) if v is not None]
            st.cells[k] = self.merge_values(cs, vs, self.cellinfo[k][0] or k)
        hkeys = set()
        for _, s in ins_:
            hkeys |= set(s.heap)
        for k in hkeys:
            vals = []
            for _, s in ins_:
                v = s.heap.get(k)
                if v is None:
                    v = self.old.heap.get(k) if self.old and k in self.old.heap else None
                    if v is None:
                        v = self.heap_get(s, k, None)
                vals.append(v)
            st.heap[k] = self.merge_values(conds, vals, 'H:' + k)
        st.alloc = self.merge_values(conds, [s.alloc for _, s in ins_], 'alloc')
        gk = set()
        for _, s in ins_:
            gk |= set(s.ghost)
        for k in gk:
            if k.startswith('py:'):
                vs_ = set(s.ghost.get(k) for _, s in ins_)
                if len(vs_) == 1:
                    st.ghost[k] = vs_.pop()
                continue
            vals = [s.ghost.get(k, FALSE if k.startswith('defer:') else None) for _, s in ins_]
            if all(v is not None for v in vals):
                st.ghost[k] = self.merge_values(conds, vals, 'g:' + k)
        # phis
        for ph in phis:
            vals = []
            cs = []
            for p, s in ins_:
                if 'origpreds' in blk:
                    idx = blk['origpreds'].index(self.cfg.blocks[p]['orig'])
                else:
                    idx = preds.index(p)
                vals.append(self.val(s, ph['edges'][idx]))
                cs.append(s.pc)
            st.regs[ph['name']] = self.merge_values(cs, vals, ph['name'])
        return st

    def exec_block(self, b, st, out, isback):
        blk = self.cfg.blocks[b]
        for ins in blk['instrs']:
            op = ins['op']
            if self.is_cut(ins.get('line')):
                # (assertions and ghost updates anchored at the same statement still apply: they come before it)
                ln_ = ins.get('line')
                if ln_ and ln_ != self.last_anchor_line.get(blk['index']):
                    self.last_anchor_line[blk['index']] = ln_
                    if getattr(self, 'ghost_after', None) or getattr(self.spec, 'libfacts', None):
                        if st.ghost.get('py:line') not in (None, ln_):
                            self.ghost_after_line(st, st.ghost['py:line'])
                    self.anchors_at(st, ln_)
                self.ctx.notes.append('unbounded verification of %s stops at line %d (%s); the rest of the function is NOT verified' % (short_fn(self.fname), ins['line'], self.cut_reason))
                self.cut_pcs.append(st.pc)
                return
            if op == 'Phi':
                if ins['name'] not in st.regs or self.phi_stale(b, ins, st):
                    # single (live) predecessor: value of that edge
                    p_ = self.live_pred.get(b)
                    if p_ is None:
                        p_ = self.cfg.preds[b][0]
                    if 'origpreds' in blk:
                        idx_ = blk['origpreds'].index(self.cfg.blocks[p_]['orig'])
                    else:
                        idx_ = self.cfg.preds[b].index(p_)
                    st.regs[ins['name']] = self.val(st, ins['edges'][idx_])
                continue
            if op == 'If':
                cnd = self.val(st, ins['cond'])
                s1, s2 = self.cfg.succs[b]
                self.edge(b, s1, st, cnd, out, isback)
                self.edge(b, s2, st, not_(cnd), out, isback)
                return
            if op == 'Jump':
                self.edge(b, self.cfg.succs[b][0], st, TRUE, out, isback)
                return
            if op == 'Return':
                self.cur_line = ins.get('line') or self.cur_line
                self.do_return(st, ins)
                return
            if op == 'Panic':
                self.cur_line = ins.get('line') or self.cur_line
                self.cur_detail = 'panic'
                self.oblige(st, 'panic', 'explicit', FALSE)
                return
            if op == 'Unwind':
                self.cur_detail = 'unwind'
                self.oblige(st, 'unwind', 'bound', FALSE, {'clause': 'loop bound of the bounded check is sufficient'})
                return
            self.step(st, ins, blk)

    def edge(self, b, s, st, cond, out, isback):
        ns = st.copy()
        if not (cond.is_bool() and cond.val):
            ns.pc = self.ctx.name('pc%d_%d' % (b, s), and_(st.pc, cond))
        if ns.pc.is_bool() and not ns.pc.val:
            return
        # leaving loops: pop loop write frames handled by loop membership at use
        if (b, s) in isback:
            self.back_edge(s, ns)
            return
        out[(b, s)] = ns

    # ------------------------------------------------------------------ loops
    def store_heaps(self, tid):
        """heap names a store of a value of type tid can touch (as element, field or object)"""
        names = set()
        if self.kind(tid) == 'array' and not self.is_scalar(self.U(tid)['elem']):
            return self.store_heaps(self.U(tid)['elem'])
        try:
            if self.is_scalar(tid) and not self.is_string(tid):
                names.add(self.hs_name(tid))
                names.add('HB:' + self.elem_key(tid))
                names.add('INIT:' + self.elem_key(tid))
            for hn, srt, two, via in self.leaf_heaps(tid):
                names.add(hn)
                if two:
                    names.add('INIT:' + hn[3:])
        except Unsupported:
            return None
        return names

    def loop_written_heaps(self, lp):
        """over-approximation (by static type) of the heaps that stores inside the loop can modify; None = any"""
        names = set()
        regtype = {}
        for b in self.fn['blocks']:
            for ins in b['instrs']:
                if ins.get('name'):
                    regtype[ins['name']] = ins
        for b in lp.body:
            for ins in self.cfg.blocks[b]['instrs']:
                op = ins['op']
                add_ = None
                if op == 'Store':
                    a = ins['addr']
                    if a['k'] == 'reg':
                        n = a['n']
                        root = n if n in self.allocs else self.derived.get(n)
                        if root is not None and root in self.cellset:
                            continue
                    at_ = a.get('type')
                    if not at_ or self.kind(at_) != 'pointer':
                        return None
                    et = self.U(at_)['elem']
                    add_ = self.store_heaps(et)
                    # a store through a field address touches the field heap of the owning struct
                    d = regtype.get(a.get('n'))
                    if d is not None and d['op'] == 'FieldAddr':
                        ot = d['x'].get('type')
                        if ot and self.kind(ot) == 'pointer':
                            st_ = self.U(ot)['elem']
                            f = self.struct_fields(st_)[d['field']]
                            pre = 'HF:%s.%s' % (self.tname(st_), f['name'])
                            add_ = set(add_ or ())
                            add_.add(pre)
                            for s_ in ('arr', 'off', 'len', 'cap'):
                                add_.add(pre + '.' + s_)
                elif op == 'Alloc':
                    if ins['name'] in self.cellset:
                        continue
                    add_ = self.store_heaps(ins['elem'])
                elif op == 'MakeSlice':
                    add_ = self.store_heaps(self.U(ins['type'])['elem'])
                elif op == 'Call':
                    c_ = ins['call']
                    val_ = c_.get('value') or {}
                    if val_.get('k') == 'builtin':
                        if val_.get('n') in ('append', 'copy'):
                            t0 = c_['args'][0].get('type')
                            add_ = self.store_heaps(self.U(t0)['elem']) if t0 and self.kind(t0) == 'slice' else None
                            if add_ is None:
                                return None
                        elif val_.get('n') == 'delete':
                            return None
                        else:
                            continue
                    else:
                        callee = c_.get('static')
                        if not callee and not c_.get('invoke') and self.spec and self.spec.effects \
                                and not any(' modifies ' in (' ' + e_.text + ' ') for e_ in self.spec.effects):
                            # a call through a function value: only declared effects are allowed (effect_check), and
                            # none of this function's declared effects modifies anything
                            continue
                        sp_ = self.find_spec(callee) if callee else None
                        if sp_ is None or sp_.modifies:
                            return None
                        continue
                elif op == 'Convert':
                    if self.kind(ins['type']) == 'slice' or self.is_string(ins['type']):
                        add_ = set(['HS:uint8', 'HS:int32'])
                    else:
                        continue
                elif op in ('MapUpdate', 'Go', 'Defer', 'Send', 'MakeMap', 'MakeChan', 'Select'):
                    return None
                else:
                    continue
                if add_ is None:
                    return None
                names |= add_
        return names

    def loop_modified(self, lp):
        """cells stored and heaps possibly written inside the loop"""
        cells = set()
        heaps = False
        for b in lp.body:
            for ins in self.cfg.blocks[b]['instrs']:
                op = ins['op']
                if op == 'Store':
                    a = ins['addr']
                    if a['k'] == 'reg':
                        n = a['n']
                        root = n if n in self.allocs else self.derived.get(n)
                        if root is not None and root in self.cellset:
                            cells.add(root)
                            continue
                    heaps = True
                elif op == 'Alloc':
                    if ins['name'] in self.cellset:
                        cells.add(ins['name'])
                    else:
                        heaps = True
                elif op == 'Call':
                    c_ = ins['call']
                    val_ = c_.get('value') or {}
                    if val_.get('k') == 'builtin':
                        if val_.get('n') in ('append', 'copy', 'delete'):
                            heaps = True
                        continue
                    callee = c_.get('static')
                    sp_ = self.find_spec(callee) if callee else None
                    if sp_ is None or sp_.modifies:
                        heaps = True
                elif op == 'Convert':
                    if self.kind(ins['type']) == 'slice' or self.is_string(ins['type']):
                        heaps = True
                elif op in ('MapUpdate', 'Go', 'Defer', 'Send', 'MakeSlice', 'MakeMap', 'MakeChan', 'Select'):
                    heaps = True
        return cells, heaps

    def enter_loop(self, h, st):
        lp = self.cfg.loops[h]
        spec = self.spec.loops.get(lp.ordinal) if (self.spec and lp.ordinal) else None
        scope = lp.ast.get('scope') if lp.ast else None
        env = self.spec_env(scope)
        self.cur_line = lp.ast['line'] if lp.ast else self.cur_line
        self.cur_detail = 'loop%s' % lp.ordinal
        invs = list(spec.invariants) if spec else []
        ri = self.range_index(h)
        if ri is not None:
            cell, bound = ri
            env = dict(env)
            env['iter'] = ('lazy', (lambda c_: (lambda st_: add(st_.cells[c_], ONE)))(cell))
            env['rangelen'] = ('lazy', (lambda b_: (lambda st_: self.val(st_, b_)))(bound))
            # `ranged`: the slice the loop ranges over (it may be a temporary without a name, e.g. strings.Split(..))
            if isinstance(bound, dict) and bound.get('k') == 'reg':
                for b2_ in self.fn['blocks']:
                    for i2_ in b2_['instrs']:
                        if i2_.get('name') == bound['n'] and i2_.get('op') == 'Call' and (i2_['call'].get('value') or {}).get('k') == 'builtin' \
                                and i2_['call']['value'].get('n') == 'len' and i2_['call'].get('args'):
                            env['ranged'] = ('lazy', (lambda a_: (lambda st_: self.val(st_, a_)))(i2_['call']['args'][0]))
            auto = Clause('invariant', '0 <= iter && iter <= rangelen', None, 'auto:range')
            invs = [auto] + invs
        # inside a nested loop, `outer` is the index of the element the nearest enclosing range loop is processing
        best_ = None
        for h2_, lp2_ in self.cfg.loops.items():
            if h2_ != h and h in lp2_.body and (best_ is None or len(lp2_.body) < len(self.cfg.loops[best_].body)):
                if self.range_index(h2_) is not None:
                    best_ = h2_
        if best_ is not None:
            env = dict(env)
            env['outer'] = ('lazy', (lambda c_: (lambda st_: st_.cells[c_]))(self.range_index(best_)[0]))
        # 1. invariants on entry
        nauto = len(invs) - (len(spec.invariants) if spec else 0)
        ts_ = [self.eval_clause(cl, st, env, self.old) for cl in invs]
        for i, cl in enumerate(invs):
            t = ts_[i]
            self.oblige(st, 'inv', 'loop%s.%s:entry' % (lp.ordinal, 'auto' if cl.src == 'auto:range' else i - nauto), t, {'clause': cl.text}, cl.props)
        # 2. havoc
        cells, heaps = self.loop_modified(lp)
        st = st.copy()
        pre = st.copy()
        # anything the loop may have allocated lies below the new allocation counter
        na_loop = self.ctx.fresh('alloc', INT)
        self.ctx.assume(le(pre.alloc, na_loop))
        for cn in sorted(cells):
            if cn in st.cells:
                st.cells[cn] = self.fresh_value('lv:%s' % (self.cellinfo[cn][0] or cn), self.cellinfo[cn][2], True, na_loop)
        for gn_ in getattr(self, 'ghost_vars', []):
            st.ghost['gv:' + gn_] = self.ctx.fresh('gv:' + gn_, INT)       # ghost variables are havocked at every loop
        regions = None
        if spec and spec.writes is not None:
            regions = self.eval_regions(spec.writes, pre, env) + [('fresh', pre.alloc)]
        st.alloc = na_loop
        if heaps:
            wh = self.loop_written_heaps(lp)
            if regions is not None:
                self.havoc_regions(st, [r for r in regions if r[0] != 'fresh'] , 'loop%s' % lp.ordinal)
                self.havoc_fresh(st, pre.alloc, 'loop%s' % lp.ordinal, wh)
            elif self.writable is not None:
                self.havoc_regions(st, [r for r in self.writable if r[0] != 'fresh'], 'loop%s' % lp.ordinal)
                self.havoc_fresh(st, self.alloc0, 'loop%s' % lp.ordinal, wh)
            else:
                self.havoc_regions(st, [('any',)], 'loop%s' % lp.ordinal)
        st.pc = self.ctx.name('pcL%d' % h, st.pc)
        # 3. assume invariants
        for cl in invs:
            t = self.eval_clause(cl, st, env, self.old)
            self.ctx.assume(implies(st.pc, t))
        # lemma uses at header
        if spec:
            for u in spec.asserts:
                self.apply_use(u, st, env)
        dec0 = None
        if spec and spec.decreases is not None:
            ev = SpecEval(self, st, env, self.old, spec.decreases.src)
            dec0 = self.ctx.name('dec%s' % lp.ordinal, ev.term(spec.decreases.expr))
        self.loopctx[h] = (lp, spec, env, dec0, regions, invs)
        self.loop_pcs.append(('loop%s.header' % lp.ordinal, st.pc, len(self.ctx.asserts)))
        lp.regions = regions
        return st

    def range_index(self, h):
        """(cell name, bound operand) of a compiler-generated rangeindex loop headed at block h"""
        ins = self.cfg.blocks[h]['instrs']
        if len(ins) >= 4 and ins[0]['op'] == 'UnOp' and ins[0]['x'].get('k') == 'reg':
            cell = ins[0]['x']['n']
            a = self.allocs.get(cell)
            if a is not None and a.get('comment') == 'rangeindex' and cell in self.cellset:
                for i2 in ins:
                    if i2['op'] == 'BinOp' and i2['binop'] == '<':
                        return cell, i2['y']
        return None

    def havoc_fresh(self, st, base, tag, only=None):
        """objects allocated at or after `base` may have been written: forget their contents.
        Encoded by replacing each heap with a fresh one that agrees below `base` (for roots)."""
        c = self.ctx
        for name in list(st.heap):
            old = st.heap[name]
            if old.op == 'const' and old.val.startswith(tag + ':'):
                continue   # already havoc'd by regions: weaken instead? keep (regions havoc is stronger info)
            # only matters if something fresh could exist: base < current alloc.  Cheap syntactic test:
            if st.alloc is base or name.startswith('MAP'):
                continue
            if only is not None and name not in only:
                continue
            new = c.fresh(tag + 'f:' + name, old.sort)
            st.heap[name] = new
            c.heap_bound[new.val] = st.alloc
            # what belongs to objects that existed before `base` is kept (field and element addresses count by the
            # object they lie in)
            if name.startswith(('HS:', 'INIT:')):
                a, k = const('a!', INT), const('k!', INT)
                c.assume(forall([a], implies(self.existed(a, base), eq(select(new, a), select(old, a))), [select(new, a)]))
            else:
                p = const('p!', INT)
                c.assume(forall([p], implies(self.existed(p, base), eq(select(new, p), select(old, p))), [select(new, p)]))

    def back_edge(self, h, st):
        lp, spec, env, dec0, regions, invs = self.loopctx[h]
        self.loop_pcs.append(('loop%s.backedge' % lp.ordinal, st.pc, len(self.ctx.asserts)))
        self.cur_line = lp.ast['line'] if lp.ast else self.cur_line
        self.cur_detail = 'loop%s' % lp.ordinal
        if spec:
            for u in spec.asserts:
                self.apply_use(u, st, env)
        ts_ = [self.eval_clause(cl, st, env, self.old) for cl in invs]     # evaluate first: unfolding facts of all clauses are available to each
        for i, cl in enumerate(invs):
            t = ts_[i]
            self.oblige(st, 'inv', 'loop%s.%s:preserved' % (lp.ordinal, 'auto' if cl.src == 'auto:range' else i - (len(invs) - len(spec.invariants) if spec else 0)), t, {'clause': cl.text}, cl.props)
        if spec:
            if spec.decreases is not None:
                ev = SpecEval(self, st, env, self.old, spec.decreases.src)
                d = ev.term(spec.decreases.expr)
                self.oblige(st, 'dec', 'loop%s' % lp.ordinal, and_(le(ZERO, dec0), lt(d, dec0)), {'clause': spec.decreases.text})

    def apply_use(self, u, st, env):
        """use lemma(args): assume requires(args) ==> ensures(args)"""
        e = u.expr
        if u.kind == 'assert':
            t = self.eval_clause(u, st, env, self.old)
            self.oblige(st, 'assert', self.cur_detail, t, {'clause': u.text}, u.props)
            return
        if e[0] != 'call' or e[1][0] != 'id':
            raise SpecError('%s: use lemma(args)' % u.src)
        lem = self.specs.lemmas.get(e[1][1])
        if lem is None:
            raise SpecError('%s: unknown lemma %s' % (u.src, e[1][1]))
        if lem.bounded:
            self.trusted.add('lemma %s: checked exhaustively for the shapes in its box only (bounded), assumed beyond' % lem.name)
        elif lem.trusted:
            self.trusted.add('lemma %s (trusted, not proved)' % lem.name)
        ev = SpecEval(self, st, env, self.old, u.src)
        args = [ev.ev(a) for a in e[2]]
        lenv = dict((p[0], a) for p, a in zip(lem.params, args))
        pre = and_(*[SpecEval(self, st, lenv, None, lem.src).boolean(c_.expr) for c_ in lem.requires])
        post = and_(*[SpecEval(self, st, lenv, None, lem.src).boolean(c_.expr) for c_ in lem.ensures])
        self.ctx.assume(implies(st.pc, implies(pre, post)))
        self.lemmas_used = getattr(self, 'lemmas_used', set())
        self.lemmas_used.add(lem.name)

    def apply_shape(self, st, shape):
        """bounded mode: make the sizes named by the shape concrete (contents stay symbolic)"""
        c = self.ctx

        def setfield(stid, p, path, val, sort=INT):
            name = 'HF:%s.%s' % (self.tname(stid), path)
            h = self.heap_get(st, name, arr(sort))
            st.heap[name] = store(h, p, val)
        for p in self.fn['params']:
            n = p['name']
            if n not in shape:
                continue
            sh = shape[n]
            v = st.regs['param:' + n]
            if isinstance(v, T):
                nv = B(bool(sh)) if v.sort == BOOL else I(int(sh))
            elif isinstance(v, SliceV):
                nv = SliceV(v.arr, ZERO, I(sh['len']), I(sh.get('cap', sh['len'])), v.elem)
                c.assume(lt(ZERO, v.arr))
            elif isinstance(v, PtrV):
                if sh is None:
                    nv = PtrV(ZERO, v.elem)
                else:
                    nv = v
                    c.assume(lt(ZERO, v.term))
                    for fname_, fval in sh.items():
                        f = [f_ for f_ in self.struct_fields(v.elem) if f_['name'] == fname_][0]
                        if self.kind(f['type']) == 'slice':
                            a = c.fresh('shape:%s.%s.arr' % (n, fname_), INT)
                            c.assume(and_(lt(ZERO, a), lt(a, self.alloc0), ne(a, v.term)))
                            setfield(v.elem, v.term, fname_ + '.arr', a)
                            setfield(v.elem, v.term, fname_ + '.off', ZERO)
                            setfield(v.elem, v.term, fname_ + '.len', I(fval['len']))
                            setfield(v.elem, v.term, fname_ + '.cap', I(fval.get('cap', fval['len'])))
                        elif self.is_bool(f['type']):
                            setfield(v.elem, v.term, fname_, B(bool(fval)), BOOL)
                        else:
                            setfield(v.elem, v.term, fname_, I(int(fval)))
            else:
                raise Unsupported('shape for %r' % (v,))
            st.regs['param:' + n] = nv
            self.param_vals[n] = nv

    # ------------------------------------------------------------------ returns
    def do_return(self, st, ins):
        self.cur_detail = 'return'
        vals = [self.val(st, r) for r in ins['results']]
        if getattr(self, 'inline_returns', None) is not None:
            rv = None if not vals else (vals[0] if len(vals) == 1 else TupleV(vals))
            self.inline_returns.append((st, rv))
            return
        idx = self.ret_count
        self.ret_count += 1
        self.returns.append((st.pc, ins.get('line')))
        spec = self.spec
        if not spec:
            return
        env = dict(self.entry_env())
        cur = self.spec_env(self.fn.get('scope_exit'))
        rn = [r['name'] for r in self.fn['results']]
        if len(vals) == 1:
            env['result'] = vals[0]
            if rn[0]:
                env[rn[0]] = vals[0]
        elif len(vals) > 1:
            env['result'] = TupleV(vals)
            for i, v in enumerate(vals):
                env['r%d' % i] = v
                if rn[i]:
                    env[rn[i]] = v
        for u in spec.uses:
            self.apply_use(u, st, env)
        ts_ = [SpecEval(self, st, env, self.old, cl.src).boolean(cl.expr) for cl in spec.ensures]
        for i, cl in enumerate(spec.ensures):
            t = ts_[i]
            if cl.props and 'trusted' in cl.props:
                # ensures[trusted]: a clause about the environment (e.g. what a regular expression can match) that
                # callers may rely on but that is not proved here; listed in the trusted base
                self.trusted.add('clause assumed, not proved: %s ensures %s' % (short_fn(self.fname), cl.text))
                continue
            self.oblige(st, 'post', '%d@ret%d' % (i, idx), t, {'clause': cl.text, 'results': vals}, cl.props)
        if self.opts.get('shape') is not None:
            for i, cl in enumerate(getattr(spec, 'bensures', [])):
                ev = SpecEval(self, st, env, self.old, cl.src)
                t = ev.boolean(cl.expr)
                self.oblige(st, 'bpost', '%d@ret%d' % (i, idx), t, {'clause': cl.text, 'results': vals}, cl.props)


def lemma_function(pkg, name):
    return {'name': 'lemma.' + name, 'pkg': pkg, 'short': name, 'params': [], 'freevars': [], 'results': [],
            'blocks': [{'index': 0, 'comment': 'entry', 'preds': [], 'succs': [], 'instrs': []}], 'loops': [], 'file': '', 'line': 0}


class LemmaVerifier(Verifier):
    """Proves a lemma about spec functions: requires ==> ensures, optionally by induction on an int parameter
    (hypothesis: the lemma for v-1 with the other parameters universally quantified is NOT assumed; only the
    instance with the same other parameters - plus any explicit `use` of other lemmas)."""

    def __init__(self, prog, specs, lem, pkg, resolver=None, concrete=None):
        self.concrete = concrete
        fname = 'lemma.' + lem.name
        prog.funcs[fname] = lemma_function(pkg, lem.name)
        try:
            Verifier.__init__(self, prog, specs, fname, None, resolver)
        finally:
            pass
        self.lem = lem
        self.spec = None

    def run(self):
        c = self.ctx
        lem = self.lem
        st = State()
        self.alloc0 = c.declare_const('alloc0', INT)
        st.alloc = self.alloc0
        self.old = State()
        for ax in self.specs.axioms:
            try:
                c.assume(self.eval_clause(ax, st, {}, None, 'axiom'))
                self.trusted.add('axiom: ' + ax.text)
            except SpecError:
                pass
        for gi in self.specs.globalinvs:
            if gi.pkg == self.fn['pkg']:
                c.assume(self.eval_clause(gi, st, {}, None, 'globalinv'))
        env = {}
        for pn, pt in lem.params:
            env[pn] = self.formal('L:%s.%s' % (lem.name, pn), self.parse_type(pt))
            self.declare_formal(env[pn])
            self.assume_formal_valid(env[pn])
        if self.concrete is not None:
            self.expand_small_quants = True
            for key, val in self.concrete.items():
                mk = re.match(r'^(clen|len)\((\w+)\)$', key)
                if mk:
                    fv = env[mk.group(2)]
                    if isinstance(fv, SnapV):
                        sq = fv.f['slice']
                        nf = dict(fv.f)
                        nf['slice'] = SeqV(sq.a, sq.off, I(val), sq.elem, sq.alt)
                        env[mk.group(2)] = SnapV(fv.tid, nf)
                    else:
                        env[mk.group(2)] = SeqV(fv.a, fv.off, I(val), fv.elem, fv.alt)
                else:
                    pt_ = dict(lem.params).get(key)
                    env[key] = B(bool(val)) if pt_ == 'bool' else I(val)
        self.cur_line = 0
        self.cur_detail = 'lemma'
        self.nreq = len(lem.requires)
        self.req_false = False
        for cl in lem.requires:
            t_ = self.eval_clause(cl, st, env, None)
            if t_.is_bool() and not t_.val:
                self.req_false = True
            c.assume(t_)
        self.entry_nassert = len(c.asserts)
        if self.req_false:
            return c
        if lem.induction and self.concrete is None:
            v = lem.induction
            if v not in env or not isinstance(env[v], T):
                raise SpecError('%s: induction variable %s must be an int parameter' % (lem.src, v))
            self.oblige(st, 'wf', lem.name, ge(env[v], I(-1000000)), {'clause': 'induction variable bounded below'}, lem.props)
            env2 = dict(env)
            env2[v] = sub(env[v], ONE)
            pre = and_(*[self.eval_clause(cl, st, env2, None) for cl in lem.requires])
            post = and_(*[self.eval_clause(cl, st, env2, None) for cl in lem.ensures])
            c.assume(implies(pre, post))
        for u in lem.uses:
            self.apply_use(u, st, env)
        for i, cl in enumerate(lem.ensures):
            t = self.eval_clause(cl, st, env, None)
            self.oblige(st, 'lemma', '%s.%d' % (lem.name, i), t, {'clause': cl.text}, lem.props or cl.props)
        self.returns.append((TRUE, 0))
        return c

    def declare_formal(self, v):
        out = []
        self.flatten(v, out) if not isinstance(v, T) else out.append(v)
        for t in out:
            if t.op == 'const':
                self.ctx.declare_const(t.val, t.sort)

    def assume_formal_valid(self, v):
        c = self.ctx
        if isinstance(v, (SeqV, SliceV)):
            c.assume(and_(le(ZERO, v.off), le(ZERO, v.len)))
        elif isinstance(v, SnapV):
            for x in v.f.values():
                self.assume_formal_valid(x)
