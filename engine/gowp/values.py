"""Symbolic value model."""
from .term import *


class SliceV(object):
    __slots__ = ('arr', 'off', 'len', 'cap', 'elem')

    def __init__(self, arr, off, len_, cap, elem):
        self.arr, self.off, self.len, self.cap, self.elem = arr, off, len_, cap, elem

    def __repr__(self):
        return 'SliceV(%s,%s,%s,%s)' % (self.arr, self.off, self.len, self.cap)


class StrV(object):
    __slots__ = ('arr', 'off', 'len', 'lit')

    def __init__(self, arr, off, len_, lit=None):
        self.arr, self.off, self.len, self.lit = arr, off, len_, lit

    def __repr__(self):
        return 'StrV(%s,%s,%s)' % (self.arr, self.off, self.len)


class SeqV(object):
    """logical sequence: (inner array term, offset, length) - heap independent"""
    __slots__ = ('a', 'off', 'len', 'elem', 'alt')

    def __init__(self, a, off, len_, elem, alt=None):
        self.a, self.off, self.len, self.elem = a, off, len_, elem
        self.alt = alt      # inner array of the same memory viewed as []rune (util.Chars idiom)


class StructV(object):
    __slots__ = ('tid', 'f')

    def __init__(self, tid, fields):
        self.tid = tid
        self.f = fields     # dict name -> value

    def __repr__(self):
        return 'StructV(%s,%r)' % (self.tid, self.f)


class SnapV(object):
    """logical snapshot of a struct (fields are scalars, SeqV or SnapV)"""
    __slots__ = ('tid', 'f', 'addr')

    def __init__(self, tid, fields, addr=None):
        self.tid = tid
        self.f = fields
        self.addr = addr        # PtrV the snapshot was taken through (lets a spec function body write &x.f)


class ArrV(object):
    __slots__ = ('tid', 'elems', 'elem')

    def __init__(self, tid, elems, elem):
        self.tid, self.elems, self.elem = tid, elems, elem


class ArrRef(object):
    """a large array value read as a whole (`x := *p` of a struct that embeds it): the array at address `addr` as it
    was in state `pre`; storing it somewhere copies it element by element (see Exec.obj_store)"""
    __slots__ = ('tid', 'addr', 'pre')

    def __init__(self, tid, addr, pre):
        self.tid = tid
        self.addr = addr
        self.pre = pre


class TupleV(object):
    __slots__ = ('elems',)

    def __init__(self, elems):
        self.elems = list(elems)


class PtrV(object):
    """pointer: either a python-level address (addr) or an Int term (0 = nil)"""
    __slots__ = ('term', 'elem', 'addr')

    def __init__(self, term, elem, addr=None):
        self.term, self.elem, self.addr = term, elem, addr

    def __repr__(self):
        return 'PtrV(%s,%s,%s)' % (self.term, self.elem, self.addr)


class Opaque(object):
    """interface / func / map / chan / float value identified by an Int term"""
    __slots__ = ('term', 'tid', 'info')

    def __init__(self, term, tid, info=None):
        self.term, self.tid, self.info = term, tid, info

    def __repr__(self):
        return 'Opaque(%s)' % (self.term,)


class FuncV(object):
    __slots__ = ('name', 'bindings', 'term')

    def __init__(self, name, bindings=(), term=None):
        self.name, self.bindings, self.term = name, list(bindings), term


class Unsupported(Exception):
    pass


def is_term(v):
    return isinstance(v, T)
