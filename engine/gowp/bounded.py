"""Bounded mode (mode B): the same VC generator run on a statically unrolled copy of the real
function, for every concrete shape in a stated box, contents fully symbolic.  Results are
labelled bounded and never counted as proved."""
import itertools
import time
from concurrent.futures import ThreadPoolExecutor

from .verifier import Verifier
from .values import Unsupported
from .spec import SpecError
from . import solve
from .exec import short_fn

ALGO = 'github.com/junegunn/fzf/src/algo.'


def v2_shapes(maxn, maxm):
    for n in range(0, maxn + 1):
        for m in range(0, maxm + 1):
            for inbytes in (True, False):
                for slab in (None, 64):
                    if not inbytes or m == 0 or m > n:
                        yield {'N': n, 'M': m, 'inBytes': inbytes, 'slab': slab, 'win': None}
                        continue
                    # byte text: the ASCII pre-filter's window is case-split (every possible result is enumerated)
                    yield {'N': n, 'M': m, 'inBytes': inbytes, 'slab': slab, 'win': (-1, -1)}
                    for a in range(0, n):
                        for b_ in range(a + 1, n + 1):
                            yield {'N': n, 'M': m, 'inBytes': inbytes, 'slab': slab, 'win': (a, b_)}


def v2_opts(sh):
    n, m = sh['N'], sh['M']
    shape = {'input': {'slice': {'len': n}, 'inBytes': sh['inBytes']}, 'pattern': {'len': m},
             'slab': None if sh['slab'] is None else {'I16': {'len': sh['slab']}, 'I32': {'len': sh['slab']}}}
    o = {'shape': shape, 'unroll': {1: n, 2: max(m - 1, 0), 3: n, 4: n + m}, 'default_unroll': max(n, m) + 1, 'nocut': True, 'inline': True, 'ground': True, 'qmax': n + m + 2}
    if sh.get('win') is not None:
        o['concretize'] = {'minIdx': sh['win'][0], 'maxIdx': sh['win'][1]}
    return o


CHECKS = {
    'v2': {'func': ALGO + 'FuzzyMatchV2', 'props': ['C02', 'C03', 'C05'], 'quick': (4, 2), 'thorough': (5, 3), 'shapes': v2_shapes, 'opts': v2_opts},
}


def run_check(ses, name, tier, timeout, only=None):
    cfg = CHECKS[name]
    box = cfg[tier]
    t0 = time.time()
    queries = []
    shapes = 0
    errors = []
    for sh in cfg['shapes'](*box):
        if only and not only(sh):
            continue
        opts = cfg['opts'](sh)
        try:
            v = Verifier(ses.prog, ses.specs, cfg['func'], opts, resolver=ses.resolver)
            v.configure(ses.resolver(cfg['func']))
            ctx = v.run()
        except (Unsupported, SpecError) as ex:
            errors.append({'shape': sh, 'error': '%s: %s' % (type(ex).__name__, ex)})
            continue
        shapes += 1
        queries.append((ctx, [ob for ob in ctx.obligations if not getattr(ob, 'trivial', False)], sh))
    fails = []
    solver_s = 0.0
    nobs = sum(len(q[1]) for q in queries)

    def work(q):
        ctx, obs, sh = q
        r = {'status': 'skip', 'time': 0.0}
        if False:
            return q, r, []
        # something fails (or the batch is undecided): find out which obligations, individually
        bad = []
        for ob in obs:
            r1 = solve.check(ctx, ob, timeout, ses.workdir)
            if r1['status'] != 'unsat':
                bad.append((ob, r1))
        return q, r, bad
    with ThreadPoolExecutor(max_workers=16) as pool:
        for (ctx, obs, sh), r, bad in pool.map(work, queries):
            solver_s += r['time']
            for ob, r1 in bad:
                fails.append({'shape': sh, 'obligation': ob.name, 'kind': ob.kind, 'line': ob.line, 'clause': ob.info.get('clause'), 'status': r1['status'],
                              'output': (r1.get('output') or '')[:1500], 'ctx': ctx, 'ob': ob})
            if r['status'] not in ('unsat', 'skip') and not bad:
                fails.append({'shape': sh, 'obligation': 'batch', 'kind': 'batch', 'line': 0, 'clause': None, 'status': r['status'], 'output': r.get('output', '')[:500], 'ctx': ctx, 'ob': obs[0]})
    return {'check': name, 'function': short_fn(cfg['func']), 'box': {'N<=': box[0], 'M<=': box[1]}, 'shapes': shapes, 'queries': len(queries), 'obligations': nobs, 'failures': fails, 'errors': errors,
            'wall_s': round(time.time() - t0, 2), 'solver_s': round(solver_s, 2)}
