"""SMT-LIB emission and the solver portfolio."""
import os
import re
import subprocess
import tempfile
import time
import hashlib
from concurrent.futures import ThreadPoolExecutor
from .term import *
from .term import _smt

SOLVERS = {
    'z3new': lambda f, t: ['z3-new', '-T:%d' % t, f],
    'z3': lambda f, t: ['z3', '-T:%d' % t, f],
    'cvc5': lambda f, t: ['cvc5', '--tlimit=%d' % (t * 1000), '--produce-models', f],
    # the same solver with other seeds: quantifier instantiation is sensitive to assertion order and seed
    'z3new.s1': lambda f, t: ['z3-new', '-T:%d' % t, 'smt.random_seed=1', 'sat.random_seed=1', f],
    'z3new.s3': lambda f, t: ['z3-new', '-T:%d' % t, 'smt.random_seed=3', 'sat.random_seed=3', f],
    'z3.s5': lambda f, t: ['z3', '-T:%d' % t, 'smt.random_seed=5', f],
}


class SharedPrinter(object):
    """Prints terms as SMT-LIB with common sub-terms (shared DAG nodes) hoisted into named definitions,
    so that long store chains and merged values are printed once."""

    def __init__(self, terms):
        self.count = {}
        self.names = {}
        self.defs = []          # (name, sort, text)
        self.n = 0
        for t in terms:
            self._count(t)

    def _count(self, t):
        stack = [t]
        cnt = self.count
        while stack:
            x = stack.pop()
            c = cnt.get(x, 0)
            cnt[x] = c + 1
            if c:
                continue
            if x.op in ('forall', 'exists', 'let'):
                continue        # bodies mention bound variables: no hoisting inside
            for a in x.args:
                if isinstance(a, T):
                    stack.append(a)

    def text(self, t):
        out = []
        self._p(t, out, True)
        return ''.join(out)

    def _p(self, t, out, top=False):
        op = t.op
        if op in ('int', 'bool', 'const') or (op == 'app' and not t.args):
            _smt(t, out)
            return
        if op in ('forall', 'exists', 'let'):
            _smt(t, out)
            return
        nm = self.names.get(t)
        if nm is not None:
            out.append(nm)
            return
        if self.count.get(t, 0) >= 2 and not top:
            sub = []
            self._body(t, sub)
            self.n += 1
            nm = 'sh!%d' % self.n
            self.names[t] = nm
            self.defs.append((nm, t.sort, ''.join(sub)))
            out.append(nm)
            return
        self._body(t, out)

    def _body(self, t, out):
        op = t.op
        if op == 'app':
            out.append('(' + sym(t.val))
            for a in t.args:
                out.append(' ')
                self._p(a, out)
            out.append(')')
        elif op == 'constarr':
            out.append('((as const %s) ' % t.sort)
            self._p(t.args[0], out)
            out.append(')')
        elif op == '-' and len(t.args) == 1:
            out.append('(- ')
            self._p(t.args[0], out)
            out.append(')')
        else:
            out.append('(' + op)
            for a in t.args:
                out.append(' ')
                self._p(a, out)
            out.append(')')


def emit_shared(ctx, keep, goal, model_terms=(), for_cvc5=False, extra_decls=()):
    pr = SharedPrinter(list(keep) + [goal])
    body = [pr.text(a) for a in keep]
    goal_s = pr.text(goal)
    used = used_names(list(keep) + [goal] + list(model_terms))
    out = []
    if for_cvc5:
        out.append('(set-option :produce-models true)')
        out.append('(set-logic ALL)')
    for name, argsorts, sort in ctx.decls:
        if name not in used:
            continue
        if argsorts is None:
            out.append('(declare-const %s %s)' % (sym(name), sort))
        else:
            out.append('(declare-fun %s (%s) %s)' % (sym(name), ' '.join(argsorts), sort))
    for c in extra_decls:
        out.append('(declare-const %s %s)' % (sym(c.val), c.sort))
    # definitions may have been created while printing later assertions; they only depend on earlier definitions
    for nm, sort, txt in pr.defs:
        out.append('(declare-const %s %s)' % (nm, sort))
    for nm, sort, txt in pr.defs:
        out.append('(assert (= %s %s))' % (nm, txt))
    for b in body:
        out.append('(assert %s)' % b)
    out.append('(assert %s)' % goal_s)
    out.append('(check-sat)')
    if model_terms:
        out.append('(get-value (%s))' % ' '.join(smt(t) for t in model_terms))
    return '\n'.join(out) + '\n'


def smt_header(ctx, upto=None):
    lines = []
    for name, argsorts, sort in ctx.decls:
        if argsorts is None:
            lines.append('(declare-const %s %s)' % (sym(name), sort))
        else:
            lines.append('(declare-fun %s (%s) %s)' % (sym(name), ' '.join(argsorts), sort))
    return lines


def used_names(terms):
    acc = set()
    seen = set()
    for t in terms:
        for x in subterms(t, seen):
            if x.op in ('const', 'app'):
                acc.add(x.val)
    return acc


def has_quant(t):
    for x in subterms(t):
        if x.op in ('forall', 'exists'):
            return True
    return False


def skolemize(t, out, n=None):
    """Goal-side universal quantifiers are replaced by fresh constants before negation (what the solver would do
    itself, but explicit constants make the instantiation of the context's quantified facts robust).
    Only positive positions are touched: and / => consequent / or / ite branches / forall."""
    op = t.op
    if op == 'forall':
        m = {}
        for v in t.val:
            c = const('sk!%d!%s' % (len(out), v.val), v.sort)
            out.append(c)
            m[v] = c
        return skolemize(substitute(t.args[0], m), out)
    if op == 'and':
        return and_(*[skolemize(a, out) for a in t.args])
    if op == 'or':
        return or_(*[skolemize(a, out) for a in t.args])
    if op == '=>':
        return implies(t.args[0], skolemize(t.args[1], out))
    if op == 'ite' and t.sort == BOOL:
        return ite(t.args[0], skolemize(t.args[1], out), skolemize(t.args[2], out))
    return t


def neg(t):
    """negation pushed through the propositional structure (the solvers' own preprocessing of a deeply nested
    negated implication turned out to be much less effective than this flat form)"""
    op = t.op
    if op == '=>':
        return and_(t.args[0], neg(t.args[1]))
    if op == 'and':
        return or_(*[neg(a) for a in t.args])
    if op == 'or':
        return and_(*[neg(a) for a in t.args])
    if op == 'not':
        return t.args[0]
    if op == 'ite' and t.sort == BOOL:
        return ite(t.args[0], neg(t.args[1]), neg(t.args[2]))
    return not_(t)


def emit(ctx, ob, model_terms=(), for_cvc5=False, ground=False):
    """SMT-LIB text deciding obligation ob: context assertions made before it, pc, negated condition.
    ground=True drops quantified context facts (used only to look for candidate counterexamples)."""
    asserts = ctx.asserts[:ob.nassert]
    sk = []
    cond = skolemize(ob.cond, sk) if not os.environ.get('GOWP_NO_SKOLEM') else ob.cond
    goal = and_(ob.pc, neg(cond))
    keep = relevant(asserts, goal)
    if ground:
        keep = [a for a in keep if not has_quant(a)]
    return emit_shared(ctx, keep, goal, model_terms, for_cvc5, extra_decls=sk)


def emit_batch(ctx, obs, for_cvc5=False):
    """one query: does ANY of the obligations fail?  (assert-then-assume facts are left out)"""
    asserts = [a for i, a in enumerate(ctx.asserts) if i not in ctx.ob_assume_idx]
    goal = or_(*[and_(ob.pc, not_(ob.cond)) for ob in obs])
    keep = relevant(asserts, goal)
    return emit_shared(ctx, keep, goal, (), for_cvc5)


def check_batch(ctx, obs, timeout, workdir):
    class O(object):
        pass
    o = O()
    o.trivial = False
    obs = [ob for ob in obs if not getattr(ob, 'trivial', False)]
    if not obs:
        return {'status': 'unsat', 'solver': 'trivial', 'time': 0.0, 'output': ''}
    text = emit_batch(ctx, obs)
    t0 = time.time()
    st, outp, dt = run_solver('z3new', text, timeout, workdir)
    if st in ('sat', 'unsat'):
        return {'status': st, 'solver': 'z3new', 'time': dt, 'output': outp if st == 'sat' else ''}
    st2, outp2, dt2 = run_solver('cvc5', emit_batch(ctx, obs, for_cvc5=True), timeout, workdir)
    if st2 in ('sat', 'unsat'):
        return {'status': st2, 'solver': 'cvc5', 'time': dt + dt2, 'output': outp2 if st2 == 'sat' else ''}
    return {'status': 'unknown', 'solver': 'portfolio', 'time': dt + dt2, 'output': 'z3new: %s; cvc5: %s' % (st, st2)}


def relevant(asserts, goal):
    """fixpoint over shared free symbols; quantified axioms are kept when they share a function/heap symbol."""
    info = []
    for a in asserts:
        info.append((a, used_names([a])))
    live = used_names([goal])
    keep = [False] * len(info)
    changed = True
    while changed:
        changed = False
        for i, (a, ns) in enumerate(info):
            if keep[i]:
                continue
            if ns & live:
                keep[i] = True
                if not ns <= live:
                    live |= ns
                    changed = True
    return [a for (a, _), k in zip(info, keep) if k]


def run_solver(name, text, timeout, workdir):
    h = hashlib.sha1(text.encode('utf8')).hexdigest()[:16]
    path = os.path.join(workdir, '%s_%s.smt2' % (h, name))
    with open(path, 'w') as f:
        f.write(text)
    t0 = time.time()
    try:
        p = subprocess.run(SOLVERS[name](path, timeout), stdout=subprocess.PIPE, stderr=subprocess.PIPE, timeout=timeout + 5)
        outp = p.stdout.decode('utf8', 'replace')
    except subprocess.TimeoutExpired:
        outp = 'timeout'
    dt = time.time() - t0
    first = outp.strip().split('\n')[0].strip() if outp.strip() else 'error'
    if first not in ('sat', 'unsat', 'unknown', 'timeout'):
        if 'timeout' in first:
            first = 'timeout'
        else:
            first = 'error: ' + first[:200]
    try:
        os.unlink(path)
    except OSError:
        pass
    return first, outp, dt


def goal_parts(cond):
    """conjuncts of a goal (through => consequents and boolean ite): each can be proved on its own"""
    op = cond.op
    if op == 'and':
        out = []
        for a in cond.args:
            out.extend(goal_parts(a))
        return out
    if op == '=>':
        ps = goal_parts(cond.args[1])
        if len(ps) > 1:
            return [implies(cond.args[0], p) for p in ps]
    if op == 'forall':
        ps = goal_parts(cond.args[0])
        if len(ps) > 1:
            return [forall(list(cond.val), p, cond.args[1:]) for p in ps]
    return [cond]


def check(ctx, ob, timeout, workdir, model_terms=(), order=('z3new', 'z3', 'cvc5', 'z3new.s1', 'z3new.s3', 'z3.s5'), split=True):
    """returns dict(status, solver, time, output).  Stage 1: z3-new with a short limit; stage 1b: the goal's conjuncts
    one by one; stage 2: race all solvers."""
    if getattr(ob, 'trivial', False):
        return {'status': 'unsat', 'solver': 'trivial', 'time': 0.0, 'output': ''}
    text = emit(ctx, ob, model_terms)
    t0 = time.time()
    first = order[0]
    quick = min(2, timeout)
    st, outp, dt = run_solver(first, text if first != 'cvc5' else emit(ctx, ob, model_terms, for_cvc5=True), quick, workdir)
    if st == 'unsat':
        return {'status': 'unsat', 'solver': first, 'time': dt, 'output': ''}
    if st == 'sat':
        return {'status': 'sat', 'solver': first, 'time': dt, 'output': outp, 'smt': text}
    if len(order) == 1 and timeout <= quick:
        return {'status': st if st in ('unknown', 'timeout') else 'unknown', 'solver': first, 'time': dt, 'output': outp[:2000], 'smt': text}
    if split and ob.kind != 'canary':
        parts = goal_parts(ob.cond)
        if 1 < len(parts) <= 24:
            import copy
            tot = dt
            solvers = set()
            allok = True
            for p in parts:
                o2 = copy.copy(ob)
                o2.cond = p
                r2 = check(ctx, o2, timeout, workdir, model_terms, order, split=False)
                tot += r2['time']
                if r2['status'] == 'sat':
                    r2['time'] = tot
                    return r2
                if r2['status'] != 'unsat':
                    allok = False
                    break
                solvers.add(r2['solver'])
            if allok:
                return {'status': 'unsat', 'solver': '+'.join(sorted(solvers)) if len(solvers) > 1 else list(solvers)[0], 'time': tot, 'output': ''}
    results = {}
    procs = {}
    import threading
    lock = threading.Lock()
    done = threading.Event()

    def runone(sname):
        txt = emit(ctx, ob, model_terms, for_cvc5=True) if sname == 'cvc5' else text
        h = hashlib.sha1(txt.encode('utf8')).hexdigest()[:16]
        path = os.path.join(workdir, '%s_%s_r.smt2' % (h, sname))
        with open(path, 'w') as f:
            f.write(txt)
        try:
            p = subprocess.Popen(SOLVERS[sname](path, timeout), stdout=subprocess.PIPE, stderr=subprocess.PIPE)
            with lock:
                procs[sname] = p
            try:
                o, _ = p.communicate(timeout=timeout + 5)
                o = o.decode('utf8', 'replace')
            except subprocess.TimeoutExpired:
                p.kill()
                o = 'timeout'
        finally:
            try:
                os.unlink(path)
            except OSError:
                pass
        f1 = o.strip().split('\n')[0].strip() if o.strip() else 'error'
        with lock:
            results[sname] = (f1, o)
            if f1 in ('sat', 'unsat'):
                done.set()
            if len(results) == len(order):
                done.set()
    ths = [threading.Thread(target=runone, args=(sn,)) for sn in order]
    for th in ths:
        th.daemon = True
        th.start()
    done.wait(timeout + 10)
    with lock:
        for sn, p in procs.items():
            if p.poll() is None and sn not in results:
                try:
                    p.kill()
                except OSError:
                    pass
        snap = dict(results)
    total = time.time() - t0
    for sn, (f1, o) in snap.items():
        if f1 == 'unsat':
            return {'status': 'unsat', 'solver': sn, 'time': total, 'output': ''}
    for sn, (f1, o) in snap.items():
        if f1 == 'sat':
            return {'status': 'sat', 'solver': sn, 'time': total, 'output': o, 'smt': text}
    outs = '; '.join('%s: %s' % (sn, f1[:80]) for sn, (f1, o) in snap.items())
    return {'status': 'unknown', 'solver': 'portfolio', 'time': total, 'output': outs, 'smt': text}


def check_sat(ctx, pc, nassert, timeout, workdir):
    """reachability / vacuity probe: is pc satisfiable together with the context?"""
    class O(object):
        pass
    o = O()
    o.pc = pc
    o.cond = FALSE
    o.nassert = nassert
    o.trivial = False
    text = emit(ctx, o)
    for s in ('z3new', 'cvc5'):
        st, outp, dt = run_solver(s, emit(ctx, o, for_cvc5=(s == 'cvc5')), timeout, workdir)
        if st in ('sat', 'unsat'):
            return st
    return 'unknown'


def parse_values(output):
    """parse (get-value ...) output into {term_text: value_text}"""
    txt = output.split('\n', 1)[1] if '\n' in output else ''
    vals = {}
    # tokenise s-expressions
    toks = re.findall(r'\(|\)|\|[^|]*\||[^\s()]+', txt)
    pos = [0]

    def parse():
        t = toks[pos[0]]
        pos[0] += 1
        if t == '(':
            lst = []
            while toks[pos[0]] != ')':
                lst.append(parse())
            pos[0] += 1
            return lst
        return t
    if not toks or toks[0] != '(':
        return vals
    # pair by pair, so that output cut short by a time limit still yields the values printed so far
    pos[0] = 1
    while pos[0] < len(toks) and toks[pos[0]] == '(':
        try:
            pair = parse()
        except IndexError:
            break
        if isinstance(pair, list) and len(pair) == 2:
            vals[unparse(pair[0])] = sval(pair[1])
    return vals


def unparse(x):
    if isinstance(x, list):
        return '(' + ' '.join(unparse(y) for y in x) + ')'
    return x


def sval(x):
    if isinstance(x, list):
        if len(x) == 2 and x[0] == '-':
            v = sval(x[1])
            return -v if isinstance(v, int) else None
        return None
    if x == 'true':
        return True
    if x == 'false':
        return False
    try:
        return int(x)
    except ValueError:
        return None
