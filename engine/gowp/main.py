"""gowp command line."""
import argparse
import threading
import json
import os
import re
import shutil
import sys
import tempfile
import time
from concurrent.futures import ThreadPoolExecutor

from . import ssa as S
from .spec import Specs, SpecError
from .verifier import Verifier, LemmaVerifier
from .values import Unsupported
from .exec import short_fn
from . import solve
from .term import *

REPO = os.environ.get('GOWP_REPO', '/repo')
VERIF = os.environ.get('GOWP_VERIF', '/verif')
MOD = 'github.com/junegunn/fzf'


def spec_key(fullname):
    """SSA function name -> (pkg, short) used in contract files"""
    m = re.match(r'^\(\*?([^()]+)\.([A-Za-z0-9_]+)\)\.(.+)$', fullname)
    if m:
        return m.group(1), m.group(2) + '.' + m.group(3)
    i = fullname.rfind('/')
    j = fullname.find('.', i + 1)
    return fullname[:j], fullname[j + 1:]


def load_specs(repo, pkgs):
    specs = Specs()
    for p in pkgs:
        d = os.path.join(repo, p[len(MOD) + 1:]) if p.startswith(MOD) else None
        if d and os.path.isdir(d):
            for fn in sorted(os.listdir(d)):
                if fn.endswith('_verif.go'):
                    specs.merge_file(os.path.join(d, fn), p)
    tdir = os.path.join(VERIF, 'contracts')
    if os.path.isdir(tdir):
        for fn in sorted(os.listdir(tdir)):
            if fn.endswith('.spec'):
                specs.merge_file(os.path.join(tdir, fn), '')
    return specs


class Session(object):
    def __init__(self, pkgs, repo=REPO, goarch=None, workdir=None):
        self.pkgs = pkgs
        self.repo = repo
        t0 = time.time()
        self.prog = S.load_program(repo, ['./' + p[len(MOD) + 1:] for p in pkgs], os.path.join(VERIF, 'bin', 'ssajson'), goarch=goarch)
        self.load_s = time.time() - t0
        self.specs = load_specs(repo, pkgs)
        self.byspec = {}
        for full in self.prog.funcs:
            pkg, short = spec_key(full)
            self.byspec['%s::%s' % (pkg, short)] = full
        for k in [k for k in self.specs.funcs if '@@' in k]:
            # a further region contract of a function: a pseudo-function that shares the SSA body
            base = self.byspec.get(k.split('@@')[0])
            if base is not None:
                full = base + '@@' + k.split('@@')[1]
                self.prog.funcs[full] = self.prog.funcs[base]
                self.byspec[k] = full
        self.bind_closures()
        self.workdir = workdir or tempfile.mkdtemp(prefix='gowp-')
        self.unbound = [k for k in self.specs.funcs if k not in self.byspec and not self.specs.funcs[k].trusted and '::' in k and k.split('::')[0] in pkgs]

    def alias_for(self, full):
        """old name -> new name for locals renamed since obligations.lock.json was written"""
        if not hasattr(self, '_locklocals'):
            lp = os.path.join(VERIF, 'obligations.lock.json')
            try:
                self._locklocals = json.load(open(lp)).get('_locals', {})
            except (IOError, ValueError):
                self._locklocals = {}
        fn = self.prog.funcs.get(full)
        old = self._locklocals.get(short_fn(full))
        if fn is None or not old:
            return {}
        return rename_map(old, locals_of(fn))

    def bind_closures(self):
        """contracts written as `func F closure @"text"`: bound to the innermost function literal of F whose
        source lines contain the text"""
        for k in [k for k in self.specs.funcs if '$@' in k]:
            sp = self.specs.funcs[k]
            parent_key, anchor = k.split('$@', 1)
            parent = self.byspec.get(parent_key)
            if parent is None:
                continue
            best = None
            for full, fn in self.prog.funcs.items():
                if not full.startswith(parent + '$') or not fn.get('file'):
                    continue
                ls = [ins.get('line') for b in fn['blocks'] for ins in b['instrs'] if ins.get('line')]
                if not ls:
                    continue
                lo, hi = min(ls) - 1, max(ls)
                try:
                    src = open(fn['file']).read().split('\n')
                except OSError:
                    continue
                if any(anchor in l for l in src[max(lo - 1, 0):hi]):
                    if best is None or hi - lo < best[0]:
                        best = (hi - lo, full)
            if best is not None:
                pkg, short = spec_key(best[1])
                nk = '%s::%s' % (pkg, short)
                del self.specs.funcs[k]
                sp.name = nk
                self.specs.funcs[nk] = sp

    def resolver(self, callee):
        pkg, short = spec_key(callee)
        sp = self.specs.funcs.get('%s::%s' % (pkg, short))
        if sp is None:
            sp = self.specs.funcs.get('::' + callee) or self.specs.funcs.get(callee)
        return sp

    def claimed_functions(self, prop=None):
        out = []
        for k, sp in sorted(self.specs.funcs.items()):
            full = self.byspec.get(k)
            if full is None or sp.trusted:
                continue
            if prop is None or prop in sp.props or any(prop in (c.props or ()) for c in sp.ensures):
                out.append(full)
        if prop is not None:
            # every contract a claimed function relies on is checked in the same run: close over static callees
            seen = set(out)
            work = list(out)
            while work:
                f = work.pop()
                fn = self.prog.funcs.get(f)
                if fn is None:
                    continue
                for b in fn['blocks']:
                    for ins in b['instrs']:
                        if ins['op'] in ('Call', 'Go', 'Defer'):
                            cal = ins['call'].get('static')
                            if cal and cal not in seen and cal in self.prog.funcs:
                                sp = self.resolver(cal)
                                if sp is not None and not sp.trusted:
                                    seen.add(cal)
                                    out.append(cal)
                                    work.append(cal)
        lemmas_used = set()
        import re as _re
        def uses_of(sp):
            for u in list(getattr(sp, 'uses', [])) + list(getattr(sp, 'anchored', [])) + [a for lp in getattr(sp, 'loops', {}).values() for a in lp.asserts]:
                m_ = _re.match(r'\s*(\w+)\s*\(', u.text)
                if m_ and u.kind == 'use':
                    yield m_.group(1)
        for f in out:
            sp = self.resolver(f)
            if sp is not None:
                lemmas_used |= set(uses_of(sp))
        # lemmas may use lemmas
        changed = True
        while changed:
            changed = False
            for n in list(lemmas_used):
                lem = self.specs.lemmas.get(n)
                if lem:
                    for n2 in uses_of(lem):
                        if n2 not in lemmas_used:
                            lemmas_used.add(n2)
                            changed = True
        for n, lem in sorted(self.specs.lemmas.items()):
            if lem.trusted or lem.bounded:
                continue
            if prop is None or prop in lem.props or n in lemmas_used:
                out.append('lemma.' + n)
        self.lemmas_used = lemmas_used
        return out

    def bounded_lemmas(self, prop=None):
        return [lem for n, lem in sorted(self.specs.lemmas.items()) if lem.bounded and (prop is None or prop in lem.props or n in getattr(self, 'lemmas_used', ()))]

    def check_bounded_lemma(self, lem, timeout, widen=0):
        """every shape in the lemma's box, contents symbolic; returns dict with counts and failures"""
        import itertools
        box = lem.box or {}
        keys = sorted(box)
        ranges = [range(box[k][0], box[k][1] + 1 + (widen if not k[0].islower() or '(' in k else widen)) for k in keys]
        shapes = 0
        queries = []
        t0 = time.time()
        for combo in itertools.product(*ranges):
            conc = dict(zip(keys, combo))
            v = LemmaVerifier(self.prog, self.specs, lem, lem.pkg, resolver=self.resolver, concrete=conc)
            ctx = v.run()
            if v.req_false:
                continue
            shapes += 1
            for ob in ctx.obligations:
                if not getattr(ob, 'trivial', False):
                    queries.append((ctx, ob, conc))
        fails = []

        def work(q):
            ctx, ob, conc = q
            r = solve.check(ctx, ob, timeout, self.workdir)
            return q, r
        again = []
        with ThreadPoolExecutor(max_workers=16) as pool:
            for (ctx, ob, conc), r in pool.map(work, queries):
                if r['status'] == 'sat' or (r['status'] != 'unsat' and os.environ.get('GOWP_NO_RETRY')):
                    fails.append({'shape': conc, 'obligation': ob.name, 'status': r['status'], 'output': (r.get('output') or '')[:1500]})
                elif r['status'] != 'unsat':
                    again.append((ctx, ob, conc))
        # calm retry (as for the function obligations): what timed out while sixteen queries ran at once is tried again,
        # few at a time, with three times the time
        def rework(q):
            ctx, ob, conc = q
            return q, solve.check(ctx, ob, timeout * 3, self.workdir)
        if again:
            with ThreadPoolExecutor(max_workers=4) as pool:
                for (ctx, ob, conc), r in pool.map(rework, again):
                    if r['status'] != 'unsat':
                        fails.append({'shape': conc, 'obligation': ob.name, 'status': r['status'], 'output': (r.get('output') or '')[:1500]})
        return {'lemma': lem.name, 'box': dict((k, list(v_)) for k, v_ in box.items()), 'shapes': shapes, 'queries': len(queries), 'failures': fails, 'wall_s': round(time.time() - t0, 2)}

    def generate(self, full):
        from .exec import Obligation
        t0 = time.time()
        spec = self.resolver(full)
        res = {'func': full, 'error': None}
        try:
            if full.startswith('lemma.'):
                lem = self.specs.lemmas[full[6:]]
                v = LemmaVerifier(self.prog, self.specs, lem, lem.pkg, resolver=self.resolver)
            else:
                v = Verifier(self.prog, self.specs, full, resolver=self.resolver)
                v.local_alias = self.alias_for(full)
                v.alias_resolver = self.alias_for
                v.configure(spec)
            ctx = v.run()
        except (Unsupported, SpecError) as ex:
            res['error'] = '%s: %s' % (type(ex).__name__, ex)
            return res
        except Exception as ex:      # a contract that no longer fits the code (types changed under it) must not crash the check
            import traceback
            res['error'] = 'ContractBindingError: %s: %s (%s)' % (type(ex).__name__, ex, traceback.format_exc().strip().split('\n')[-3].strip())
            return res
        obs = list(ctx.obligations)
        cn = Obligation(short_fn(full) + '/canary.requires', 'canary', TRUE, FALSE, 0, v.entry_nassert)
        cn.trivial = False
        obs.append(cn)
        for i, (pc, line) in enumerate(v.returns):
            cn = Obligation(short_fn(full) + '/canary.return#%d' % i, 'canary', pc, FALSE, line or 0, len(ctx.asserts))
            cn.trivial = False
            obs.append(cn)
        seen_lp = {}
        for nm, pc, na in getattr(v, 'loop_pcs', []):
            k_ = seen_lp.get(nm, 0)
            seen_lp[nm] = k_ + 1
            cn = Obligation(short_fn(full) + '/canary.%s#%d' % (nm, k_), 'canary', pc, FALSE, 0, na)
            cn.trivial = False
            cn.loop = nm
            obs.append(cn)
        res.update({'ctx': ctx, 'obs': obs, 'verifier': v, 'trusted': sorted(v.trusted), 'notes': sorted(set(ctx.notes)), 'gen_s': time.time() - t0,
                    'loop_problems': v.loop_problems})
        return res

    def verify_function(self, full, timeout=10, jobs=16, prop=None, verbose=False):
        spec = self.resolver(full)
        res = {'func': full, 'obligations': [], 'error': None}
        t0 = time.time()
        try:
            if full.startswith('lemma.'):
                lem = self.specs.lemmas[full[6:]]
                v = LemmaVerifier(self.prog, self.specs, lem, lem.pkg, resolver=self.resolver)
                spec = None
            else:
                v = Verifier(self.prog, self.specs, full, resolver=self.resolver)
                v.local_alias = self.alias_for(full)
                v.alias_resolver = self.alias_for
                v.configure(spec)
            ctx = v.run()
        except Exception as ex:
            res['error'] = '%s: %s' % (type(ex).__name__, ex)
            if os.environ.get('GOWP_TRACE'):
                import traceback
                traceback.print_exc()
            res['gen_s'] = time.time() - t0
            return res
        res['gen_s'] = time.time() - t0
        res['loop_problems'] = v.loop_problems
        res['trusted'] = sorted(v.trusted)
        res['notes'] = sorted(set(ctx.notes))
        res['callees'] = sorted(v.callees)
        res['nreq'] = v.nreq
        obs = ctx.obligations
        # vacuity canaries: "false" at function entry (requires satisfiable) and at each return must NOT be provable
        canaries = []
        from .exec import Obligation
        cn = Obligation(short_fn(full) + '/canary.requires', 'canary', TRUE, FALSE, 0, v.entry_nassert)
        cn.trivial = False
        canaries.append(cn)
        for i, (pc, line) in enumerate(v.returns):
            cn = Obligation(short_fn(full) + '/canary.return#%d' % i, 'canary', pc, FALSE, line or 0, len(ctx.asserts))
            cn.trivial = False
            canaries.append(cn)
        nret = len(canaries)
        seen_lp = {}
        for nm, pc, na in getattr(v, 'loop_pcs', []):
            k_ = seen_lp.get(nm, 0)
            seen_lp[nm] = k_ + 1
            cn = Obligation(short_fn(full) + '/canary.%s#%d' % (nm, k_), 'canary', pc, FALSE, 0, na)
            cn.trivial = False
            cn.loop = nm
            canaries.append(cn)

        def work(ob):
            if ob.kind == 'canary':
                r = solve.check(ctx, ob, 2, self.workdir, order=('z3new',))
            else:
                r = solve.check(ctx, ob, timeout, self.workdir)
            return ob, r
        with ThreadPoolExecutor(max_workers=jobs) as pool:
            for ob, r in pool.map(work, obs + canaries):
                ob.result = r
                if ob.kind == 'canary':
                    continue
                res['obligations'].append({'name': ob.name, 'kind': ob.kind, 'line': ob.line, 'status': r['status'], 'solver': r['solver'],
                                           'time': round(r['time'], 3), 'clause': ob.info.get('clause'), 'props': sorted(ob.props) if ob.props else None})
        vac = {}
        vac['requires_sat'] = 'unsat' if canaries[0].result['status'] == 'unsat' else 'ok'
        rets = [c_.result['status'] for c_ in canaries[1:nret]]
        lun = [c_.name.split('/')[-1] for c_ in canaries[nret:] if c_.result['status'] == 'unsat']
        if lun:
            vac['loop_points_unreachable'] = lun
        vac['return_reachable'] = 'no-return' if not rets else ('unsat' if all(x == 'unsat' for x in rets) else 'ok')
        vac['dead_returns'] = sum(1 for x in rets if x == 'unsat')
        res['vacuity'] = vac
        res['canaries'] = canaries
        res['ctx'] = ctx
        res['verifier'] = v
        res['solve_s'] = time.time() - t0 - res['gen_s']
        return res


PROPS = {
    'C01': ['src/util', 'src/algo', 'src'],
    'C02': ['src/util', 'src/algo'],
    'C03': ['src/util', 'src/algo'],
    'C04': ['src/util', 'src/algo', 'src'],
    'C05': ['src/util', 'src/algo', 'src'],
    'C06': ['src/util', 'src/algo', 'src'],
    'C07': ['src/util', 'src/algo', 'src'],
    'C09': ['src/util', 'src/algo', 'src'],
    'C10': ['src/util', 'src/algo', 'src'],
    'C11': ['src/util', 'src/algo', 'src'],
    'C12': ['src/util', 'src/algo', 'src'],
    'C14': ['src/util', 'src/algo', 'src', 'src/tui'],
    'C16': ['src/util', 'src/algo', 'src'],
    'C17': ['src/util', 'src/algo', 'src'],
    'C18': ['src/util', 'src/algo', 'src'],
    'C19': ['src/util', 'src/algo', 'src'],
}


ARCH_EXTRA = {'C04': [('arm64', ['src.compareRanks'])]}


def load_known(path):
    known = {}
    fixed = []
    if os.path.exists(path):
        for line in open(path):
            line = line.strip()
            if line.startswith('finding:'):
                mp = re.search(r'property=(\S+)', line)
                mo = re.search(r'obligation=(\S+)', line)
                if mp and mo:
                    known.setdefault(mp.group(1), {})[mo.group(1)] = line
            elif line.startswith('fixed:'):
                fixed.append(line)
    return known, fixed


def check_property(prop, tier, seed):
    t0 = time.time()
    timeout = 20 if tier == 'quick' else 60
    pkgs = [MOD + '/' + p for p in PROPS[prop]]
    evidence_path = os.path.join(os.environ.get('GOWP_EVIDENCE_DIR') or os.path.join(VERIF, 'evidence'), prop + '.json')
    os.makedirs(os.path.dirname(evidence_path), exist_ok=True)
    replay_dir = os.path.join(os.environ.get('GOWP_REPLAY_DIR') or os.path.join(VERIF, 'replay'), prop)
    violations = []      # (obligation name, replay path, no_input)
    known, fixed = load_known(os.path.join(VERIF, 'known_findings.txt'))
    known = known.get(prop, {})
    lock = {}
    lp = os.path.join(VERIF, 'obligations.lock.json')
    if os.path.exists(lp):
        lock = json.load(open(lp)).get(prop, {})
    try:
        ses = Session(pkgs)
    except Exception as ex:
        os.makedirs(replay_dir, exist_ok=True)
        rp = os.path.join(replay_dir, 'load.json')
        json.dump({'property': prop, 'obligation': 'load', 'error': str(ex)}, open(rp, 'w'), indent=1)
        print('VIOLATION property=%s replay=%s no-failing-input-found' % (prop, rp))
        write_evidence(evidence_path, prop, tier, seed, [], {}, time.time() - t0, 1, ['load failed: %s' % ex], None)
        return 1
    funcs = ses.claimed_functions(prop)
    results = []
    extra_gens = []
    for arch, fnames in ARCH_EXTRA.get(prop, []):
        # build-tag variants: the same contract checked against the file compiled for other architectures
        try:
            ses2 = Session(pkgs, goarch=arch)
            for fname in fnames:
                full = [x for x in ses2.prog.funcs if short_fn(x) == fname]
                for fx in full:
                    g2 = ses2.generate(fx)
                    g2['func'] = fx + '@' + arch
                    g2['ses'] = ses2
                    if not g2.get('error'):
                        for ob in g2['obs']:
                            ob.name = ob.name.replace(short_fn(fx) + '/', short_fn(fx) + '@' + arch + '/')
                    extra_gens.append(g2)
        except Exception as ex:
            results.append({'func': 'arch:' + arch, 'error': 'loading GOARCH=%s failed: %s' % (arch, ex), 'obligations': []})
    for k in ses.unbound:
        sp = ses.specs.funcs[k]
        if prop in sp.props:
            results.append({'func': k, 'error': 'binding: contract names a function that does not exist in the source', 'obligations': []})
    # generate all VCs, then solve everything in one pool
    gens = []
    for f in funcs:
        gens.append(ses.generate(f))
    gens += extra_gens
    allobs = []
    for g in gens:
        if g.get('error'):
            results.append(g)
            continue
        for ob in g['obs']:
            allobs.append((g, ob))

    def work(pair):
        g, ob = pair
        if ob.kind == 'canary':
            r = solve.check(g['ctx'], ob, 2, ses.workdir, order=('z3new',))
        else:
            r = solve.check(g['ctx'], ob, timeout, ses.workdir)
        ob.result = r
        return pair
    with ThreadPoolExecutor(max_workers=12) as pool:
        list(pool.map(work, allobs))
    # undecided obligations get a second, calmer attempt (few at a time, three times the limit):
    # a slow query must not turn into an alarm just because the machine was busy
    retry = [(g, ob) for g, ob in allobs if ob.kind != 'canary' and ob.result['status'] not in ('unsat', 'sat')]

    def rework(pair):
        g, ob = pair
        first = ob.result
        r = solve.check(g['ctx'], ob, timeout * 3, ses.workdir)
        r['time'] += first['time']
        r['retried'] = True
        ob.result = r
        return pair
    if retry and len(retry) <= 40 and not os.environ.get('GOWP_NO_RETRY'):
        with ThreadPoolExecutor(max_workers=4) as pool:
            list(pool.map(rework, retry))
    nob = ndis = 0
    by_backend = {}
    solver_s = 0.0
    samples = []
    trusted = set()
    notes = set()
    fun_report = []
    vac_problems = []
    for g in gens:
        if g.get('error'):
            continue
        fo = fd = 0
        names = set()
        for ob in g['obs']:
            r = ob.result
            if ob.kind == 'canary':
                continue
            nob += 1
            fo += 1
            names.add(ob.name)
            solver_s += r['time']
            if r['status'] == 'unsat':
                ndis += 1
                fd += 1
                by_backend[r['solver']] = by_backend.get(r['solver'], 0) + 1
                if len(samples) < 6 and r['solver'] != 'trivial' and ob.kind in ('post', 'inv', 'lemma', 'pre'):
                    samples.append({'obligation': ob.name, 'kind': ob.kind, 'clause': ob.info.get('clause'), 'line': ob.line, 'backend': r['solver'], 'time_s': round(r['time'], 3)})
            else:
                handle_failure(prop, g, ob, ses, replay_dir, violations, known)
        cans = [ob for ob in g['obs'] if ob.kind == 'canary' and not getattr(ob, 'loop', None)]
        if cans and cans[0].result['status'] == 'unsat':
            vac_problems.append('%s: requires unsatisfiable' % short_fn(g['func']))
        # a loop whose header is reachable but none of whose back edges is: the invariant contradicts the body
        lcs = [ob for ob in g['obs'] if ob.kind == 'canary' and getattr(ob, 'loop', None)]
        by_loop = {}
        for ob in lcs:
            by_loop.setdefault(ob.loop.split('.')[0], {}).setdefault(ob.loop.split('.')[1], []).append(ob.result['status'])
        for ln_, d_ in by_loop.items():
            if d_.get('header') and all(x == 'unsat' for x in d_['header']):
                vac_problems.append('%s: %s header unreachable after assuming its invariants (contradictory invariant?)' % (short_fn(g['func']), ln_))
            elif d_.get('backedge') and all(x == 'unsat' for x in d_['backedge']):
                vac_problems.append('%s: %s no back edge reachable (contradictory invariant or body?)' % (short_fn(g['func']), ln_))
        rets = [c_.result['status'] for c_ in cans[1:]]
        if rets and all(x == 'unsat' for x in rets):
            vac_problems.append('%s: no return reachable' % short_fn(g['func']))
        dead = sum(1 for x in rets if x == 'unsat')
        sp_ = ses.resolver(g['func'].split('@')[0]) if not g['func'].startswith('lemma.') else None
        allowed = int((sp_.opts.get('deadreturns') or ['0'])[0].split()[0]) if sp_ else 0
        if dead > allowed:
            vac_problems.append('%s: %d return(s) proved unreachable (expected %d): the context may be contradictory' % (short_fn(g['func']), dead, allowed))
        if fo == 0 and (sp_ is None or prop in getattr(sp_, 'props', ())):
            # (helpers that cannot fail - a conversion, a struct literal - legitimately have none; a function
            #  that claims the property must have something to prove)
            vac_problems.append('%s: zero obligations generated' % short_fn(g['func']))
        keys_ = set(k_ for k_ in (clause_key(ob) for ob in g['obs']) if k_)
        missing = [n for n in lock.get(short_fn(g['func']), []) if n not in keys_]
        for n in missing:
            vac_problems.append('%s: contract clause %s recorded in obligations.lock no longer produces any obligation' % (short_fn(g['func']), n))
        trusted |= set(g['trusted'])
        notes |= set(g['notes'])
        fun_report.append({'function': short_fn(g['func']), 'obligations': fo, 'discharged': fd, 'gen_s': round(g['gen_s'], 2)})
    for f in lock:
        if not any(short_fn(g['func']) == f for g in gens):
            vac_problems.append('%s: function recorded in obligations.lock has no contract bound any more' % f)
    for r in results:
        os.makedirs(replay_dir, exist_ok=True)
        name = short_fn(r['func']) + '/binding'
        rp = os.path.join(replay_dir, re.sub(r'[^A-Za-z0-9_.#@-]', '_', name) + '.json')
        json.dump({'property': prop, 'obligation': name, 'status': 'error', 'reason': r['error'],
                   'note': 'the function left the verifiable subset or a contract stopped binding; no solver model exists'}, open(rp, 'w'), indent=1)
        violations.append((name, rp, True))
    # lemmas marked `bounded` are not proved: they are checked exhaustively for every shape in their box on every
    # run, reported separately, and listed among the assumptions
    bounded_report = []
    for lem in ses.bounded_lemmas(prop):
        br = ses.check_bounded_lemma(lem, timeout, widen=(1 if tier == 'thorough' else 0))
        bounded_report.append({'lemma': lem.name, 'level': 'bounded', 'box': br['box'], 'widened_by': (1 if tier == 'thorough' else 0), 'shapes': br['shapes'], 'queries': br['queries'],
                               'failures': len(br['failures']), 'wall_s': br['wall_s']})
        notes.add('lemma %s is only checked for the shapes in its box %s (bounded, not proved); the functions that `use` it rely on it for all sizes'
                  % (lem.name, ' '.join('%s=%d..%d' % (k_, v_[0], v_[1]) for k_, v_ in sorted(br['box'].items()))))
        for fl in br['failures'][:3]:
            os.makedirs(replay_dir, exist_ok=True)
            name = 'lemma.%s[bounded]' % lem.name
            rp = os.path.join(replay_dir, re.sub(r'[^A-Za-z0-9_.#@-]', '_', name) + '.json')
            json.dump({'property': prop, 'obligation': name, 'status': fl['status'], 'shape': fl['shape'], 'solver_output': fl['output']}, open(rp, 'w'), indent=1, default=str)
            violations.append((name, rp, True))
    for vp in vac_problems:
        os.makedirs(replay_dir, exist_ok=True)
        name = 'vacuity/' + vp.split(':')[0]
        rp = os.path.join(replay_dir, re.sub(r'[^A-Za-z0-9_.#@-]', '_', name) + '.json')
        json.dump({'property': prop, 'obligation': name, 'status': 'vacuity', 'reason': vp}, open(rp, 'w'), indent=1)
        violations.append((name, rp, True))
    for name, rp, noinput in violations:
        print('VIOLATION property=%s replay=%s%s' % (prop, rp, ' no-failing-input-found' if noinput else ''))
    cov = {
        'obligations': nob, 'discharged': ndis,
        'checker_cmd': 'cd /verif && ./gowp check %s --tier %s' % (prop, tier),
        'trusted_base': sorted(trusted) + ['SMT solvers z3 4.8.12 / z3 5.1.0 / cvc5 1.0', 'go/ssa (x/tools v0.29.0) NaiveForm translation', 'gowp VC generator (this directory)'],
        'functions_under_contract': fun_report,
        'by_backend': by_backend,
        'solver_s': round(solver_s, 2),
        'load_s': round(ses.load_s, 2),
        'samples': samples,
        'slowest': sorted([{'obligation': ob.name, 'time_s': round(ob.result['time'], 2), 'backend': ob.result['solver'], 'retried': bool(ob.result.get('retried'))}
                           for g in gens if not g.get('error') for ob in g['obs'] if ob.kind != 'canary'], key=lambda x: -x['time_s'])[:8],
        'vacuity': {'canaries': sum(1 for g in gens if not g.get('error') for ob in g['obs'] if ob.kind == 'canary'), 'problems': vac_problems},
        'timeout_s': timeout,
        'bounded': bounded_report,
        'errors': [{'function': short_fn(r['func']), 'error': r['error']} for r in results],
    }
    assumptions = sorted(notes) + ['termination only where a decreases clause is given', 'goroutines, channels, OS interaction are outside the verified subset',
                                   'contracts of callees are assumed at call sites and proved separately (modular verification)']
    shutil.rmtree(ses.workdir, ignore_errors=True)
    write_evidence(evidence_path, prop, tier, seed, cov, None, time.time() - t0, len(violations), assumptions, None)
    return 1 if violations else 0


def handle_failure(prop, g, ob, ses, replay_dir, violations, known):
    r = ob.result
    if ob.name in known:
        print('KNOWN-FINDING: property=%s %s' % (prop, known[ob.name]))
        return
    os.makedirs(replay_dir, exist_ok=True)
    rp = os.path.join(replay_dir, re.sub(r'[^A-Za-z0-9_.#@-]', '_', ob.name) + '.json')
    rec = {'property': prop, 'obligation': ob.name, 'kind': ob.kind, 'function': g['func'], 'line': ob.line, 'clause': ob.info.get('clause'),
           'status': r['status'], 'solver': r['solver'], 'solver_output': (r.get('output') or '')[:4000],
           'rerun': 'cd /verif && ./gowp check %s' % prop}
    noinput = True
    if not g['func'].startswith('lemma.'):
        try:
            from . import replay
            ground = r['status'] != 'sat'
            if ground and not solve.has_quant(ob.cond):
                # no model from the full query: look for a candidate among the models of the quantifier-free part of
                # the context; it counts only if the real code confirms it
                st2, _, _ = solve.run_solver('z3new', solve.emit(g['ctx'], ob, ground=True), 10, ses.workdir)
                ground = (st2 == 'sat')
                if not ground:
                    raise replay.NoReplay('no candidate model')
            elif ground:
                raise replay.NoReplay('quantified clause, solver gave no model')
            ok, details = replay.try_replay(ses, g, ob, r, ground=ground)
            details['model_from'] = 'quantifier-free part of the context (candidate only)' if ground else 'full query'
            rec['replay'] = details
            noinput = not ok
        except replay.NoReplay as ex:
            rec['replay'] = {'status': 'unsupported', 'reason': str(ex)}
        except Exception as ex:     # replay is best effort
            rec['replay'] = {'error': '%s: %s' % (type(ex).__name__, ex)}
    json.dump(rec, open(rp, 'w'), indent=1, default=str)
    violations.append((ob.name, rp, noinput))


def write_evidence(path, prop, tier, seed, cov, _unused, wall, nviol, assumptions, extra):
    ev = {'property_id': prop, 'tier': tier, 'seed': seed, 'level': 'proof', 'coverage': cov or {'obligations': 0, 'discharged': 0, 'checker_cmd': '', 'trusted_base': []},
          'assumptions': assumptions, 'wall_s': round(wall, 2), 'violations': nviol}
    json.dump(ev, open(path, 'w'), indent=1, default=str)


def replay_file(path):
    """re-run a recorded counterexample (or, when none was found, re-run the property's check)"""
    import subprocess, tempfile
    rec = json.load(open(path))
    rp = rec.get('replay') or {}
    print('obligation: %s (%s) line %s' % (rec.get('obligation'), rec.get('kind'), rec.get('line')))
    print('clause    : %s' % rec.get('clause'))
    if rp.get('go_test'):
        fn_ = rec.get('function', '')
        ses = Session([MOD + '/' + p for p in PROPS[rec['property']]])
        f = ses.prog.funcs.get(fn_)
        pkgdir = os.path.dirname(f['file'])
        tmp = tempfile.mkdtemp(prefix='gowp-replay-')
        tf = os.path.join(tmp, 'zz_gowp_replay_test.go')
        open(tf, 'w').write(rp['go_test'])
        ov = os.path.join(tmp, 'ov.json')
        json.dump({'Replace': {os.path.join(pkgdir, 'zz_gowp_replay_test.go'): tf}}, open(ov, 'w'))
        env = dict(os.environ, GOFLAGS='-mod=mod', GOPROXY='off', GOSUMDB='off', GOTOOLCHAIN='local')
        p = subprocess.run(['bash', '-c', 'cd %s && go test -v -overlay %s -vet=off -count=1 -timeout 60s -run TestGowpReplay . 2>&1' % (pkgdir, ov)], stdout=subprocess.PIPE, env=env)
        out = p.stdout.decode('utf8', 'replace')
        shutil.rmtree(tmp, ignore_errors=True)
        shutil.rmtree(ses.workdir, ignore_errors=True)
        print('call      : %s' % rp.get('call'))
        for l in out.split('\n'):
            if 'GOWP-REPLAY' in l:
                print('observed  : ' + l.strip())
        print('recorded  : %s' % rp.get('observed'))
        still = ('GOWP-REPLAY panic' in out) if str(rp.get('observed', '')).startswith('panic') else (('GOWP-REPLAY results: ' + str(rp.get('observed'))) in out)
        print('verdict   : %s' % ('violation reproduced' if still else 'not reproduced on the current tree'))
        return 1 if still else 0
    print('no failing input was recorded for this obligation; solver status %s' % rec.get('status'))
    print((rec.get('solver_output') or '')[:2000])
    return check_property(rec['property'], 'quick', 0)


def locals_of(fn):
    """named parameters and local variables of a function in declaration order: [[name, type], ...]"""
    out = [[p['name'], p['type']] for p in fn.get('params') or []]
    al = []
    for b in fn.get('blocks') or []:
        for ins in b['instrs']:
            if ins.get('op') == 'Alloc' and ins.get('comment') and ins.get('line'):
                al.append(((ins.get('line', 0), ins.get('col', 0)), [ins['comment'], ins.get('elem', '')]))
    al.sort(key=lambda x: x[0])
    seen = set(n for n, _ in out)
    for _, e in al:
        out.append(e)
    return out


def rename_map(old, new):
    """locals renamed since the lock was written: same number of declarations, and some names have disappeared while
    as many new ones have appeared at the same positions with the same types.  Contracts written with the old names
    are re-bound to the new ones.  Declarations that merely changed places (same names, another order) are no rename."""
    from collections import Counter
    if not old or len(old) != len(new):
        return {}
    removed = Counter(n for n, _ in old) - Counter(n for n, _ in new)
    added = Counter(n for n, _ in new) - Counter(n for n, _ in old)
    if not removed or sum(removed.values()) != sum(added.values()):
        return {}
    m = {}
    for (on, ot), (nn, nt) in zip(old, new):
        if on == nn:
            continue
        if removed[on] > 0 and added[nn] > 0 and ot == nt:
            if on in m and m[on] != nn:
                return {}
            # (the old name may still exist: a variable that shadowed another one of the same name was renamed; the
            #  contract's name is then re-bound only where the renamed variable is the innermost of the two, see spec_env)
            m[on] = nn
            removed[on] -= 1
            added[nn] -= 1
        else:
            return {}          # declarations moved around as well: no safe positional pairing
    return m


CLAUSE_KINDS = ('post', 'inv', 'dec', 'effect', 'assert', 'lemma', 'wf', 'callsite')


def clause_key(ob):
    """the contract clause an obligation comes from, without return / path / occurrence numbers:
    post.1@ret3#0 -> post.1, inv.loop2.0:preserved#1 -> inv.loop2.0:preserved.  The lock records these keys for
    contract clauses only: panic-freedom obligations come and go with harmless edits of the code (a removed
    statement, a merged return) and must not raise an alarm; a clause that stops producing any obligation means
    that the contract no longer binds to the code."""
    if ob.kind not in CLAUSE_KINDS:
        return None
    n = ob.name.split('/', 1)[1] if '/' in ob.name else ob.name
    n = n.split('#')[0]
    n = re.sub(r'@ret\d+$', '', n)
    return n


def write_lock(props):
    lp = os.path.join(VERIF, 'obligations.lock.json')
    lock = json.load(open(lp)) if os.path.exists(lp) else {}
    for prop in (props or sorted(PROPS)):
        ses = Session([MOD + '/' + p for p in PROPS[prop]])
        d = {}
        for f in ses.claimed_functions(prop):
            g = ses.generate(f)
            if g.get('error'):
                print('lock: %s: %s' % (f, g['error']))
                continue
            d[short_fn(f)] = sorted(set(k_ for k_ in (clause_key(ob) for ob in g['obs']) if k_))
            if f in ses.prog.funcs:
                lock.setdefault('_locals', {})[short_fn(f)] = locals_of(ses.prog.funcs[f])
        lock[prop] = d
        shutil.rmtree(ses.workdir, ignore_errors=True)
        print("locked %s: %d functions, %d contract clauses" % (prop, len(d), sum(len(v) for v in d.values())))
    json.dump(lock, open(lp, 'w'), indent=0, sort_keys=True)
    return 0


sys.setrecursionlimit(200000)


def main(argv=None):
    ap = argparse.ArgumentParser()
    ap.add_argument('cmd')
    ap.add_argument('args', nargs='*')
    ap.add_argument('--pkgs', default='src/util,src/algo')
    ap.add_argument('--timeout', type=int, default=10)
    ap.add_argument('--func', action='append')
    ap.add_argument('-v', action='store_true')
    ap.add_argument('--dump', default=None)
    ap.add_argument('--tier', default=os.environ.get('VERIF_TIER', 'quick'))
    a = ap.parse_args(argv)
    pkgs = [MOD + '/' + p for p in a.pkgs.split(',')]
    if a.cmd == 'check':
        seed = int(os.environ.get('VERIF_SEED', '0') or 0)
        return check_property(a.args[0], a.tier, seed)
    if a.cmd == 'lock':
        return write_lock(a.args)
    if a.cmd == 'replay':
        return replay_file(a.args[0])
    if a.cmd == 'bounded':
        from . import bounded
        ses = Session(pkgs)
        filt = None
        if a.func:
            kv = dict(x.split('=') for x in a.func)
            filt = lambda sh: all(str(sh.get(k)) == v_ for k, v_ in kv.items())
        r = bounded.run_check(ses, a.args[0], a.tier, a.timeout, filt)
        print('bounded %s: shapes %d queries %d failures %d errors %d wall %.1fs' % (r['check'], r['shapes'], r['queries'], len(r['failures']), len(r['errors']), r['wall_s']))
        for f_ in r['failures'][:40]:
            print('   FAIL', f_['shape'], f_['obligation'], 'L%d' % f_['line'], f_['status'], (f_['clause'] or '')[:80])
        for e_ in r['errors'][:5]:
            print('   ERROR', e_)
        if a.dump and r['failures']:
            f_ = r['failures'][0]
            open('/tmp/dump.smt2', 'w').write(solve.emit(f_['ctx'], f_['ob']))
        shutil.rmtree(ses.workdir, ignore_errors=True)
        return 0
    pkgs = [MOD + '/' + p for p in a.pkgs.split(',')]
    if a.cmd == 'verify':
        ses = Session(pkgs)
        if ses.unbound:
            print('UNBOUND contracts:', ses.unbound)
        funcs = []
        for f in (a.func or []):
            cands = [x for x in ses.prog.funcs if x == f or short_fn(x) == f or short_fn(x).split('.', 1)[-1] == f]
            if f.startswith('lemma.') and f[6:] in ses.specs.lemmas:
                lem = ses.specs.lemmas[f[6:]]
                if lem.bounded:
                    r = ses.check_bounded_lemma(lem, a.timeout)
                    print('bounded lemma %s: shapes %d queries %d failures %d (%.1fs)' % (lem.name, r['shapes'], r['queries'], len(r['failures']), r['wall_s']))
                    for fl in r['failures'][:5]:
                        print('   ', fl['shape'], fl['obligation'], fl['status'])
                    continue
                cands = [f]
            funcs += cands
        if not funcs and not a.func:
            funcs = ses.claimed_functions()
        bad = 0
        for f in funcs:
            r = ses.verify_function(f, a.timeout)
            if r['error']:
                print('%-50s ERROR %s' % (short_fn(f), r['error']))
                bad += 1
                continue
            obs = r['obligations']
            nd = sum(1 for o in obs if o['status'] == 'unsat')
            print('%-50s %d/%d discharged  gen %.1fs solve %.1fs  vac=%s %s' % (short_fn(f), nd, len(obs), r['gen_s'], r['solve_s'], r['vacuity'], r['loop_problems'] or ''))
            for o in obs:
                if o['status'] != 'unsat' or a.v:
                    print('    %-8s %-60s L%-5d %s %.2fs %s' % (o['status'], o['name'], o['line'], o['solver'], o['time'], (o['clause'] or '')[:90]))
                    if o['status'] != 'unsat':
                        bad += 1
            if a.dump:
                for ob in list(r['ctx'].obligations) + list(r.get('canaries') or []):
                    if (ob.name.endswith(a.dump[:-1]) if a.dump.endswith('$') else a.dump in ob.name):
                        open('/tmp/dump.smt2', 'w').write(solve.emit(r['ctx'], ob))
                        print('dumped', ob.name)
        shutil.rmtree(ses.workdir, ignore_errors=True)
        return 1 if bad else 0


if __name__ == '__main__':
    sys.exit(main())
