"""gowp command line."""
import argparse
import json
import os
import re
import shutil
import sys
import tempfile
import time
from concurrent.futures import ThreadPoolExecutor

from . import ssa as S
from .spec import Specs, SpecError
from .verifier import Verifier, LemmaVerifier
from .values import Unsupported
from .exec import short_fn
from . import solve
from .term import *

REPO = os.environ.get('GOWP_REPO', '/repo')
VERIF = os.environ.get('GOWP_VERIF', '/verif')
MOD = 'github.com/junegunn/fzf'


def spec_key(fullname):
    """SSA function name -> (pkg, short) used in contract files"""
    m = re.match(r'^\(\*?([^()]+)\.([A-Za-z0-9_]+)\)\.(.+)$', fullname)
    if m:
        return m.group(1), m.group(2) + '.' + m.group(3)
    i = fullname.rfind('/')
    j = fullname.find('.', i + 1)
    return fullname[:j], fullname[j + 1:]


def load_specs(repo, pkgs):
    specs = Specs()
    for p in pkgs:
        d = os.path.join(repo, p[len(MOD) + 1:]) if p.startswith(MOD) else None
        if d and os.path.isdir(d):
            for fn in sorted(os.listdir(d)):
                if fn.endswith('_verif.go'):
                    specs.merge_file(os.path.join(d, fn), p)
    tdir = os.path.join(VERIF, 'contracts')
    if os.path.isdir(tdir):
        for fn in sorted(os.listdir(tdir)):
            if fn.endswith('.spec'):
                specs.merge_file(os.path.join(tdir, fn), '')
    return specs


class Session(object):
    def __init__(self, pkgs, repo=REPO, goarch=None, workdir=None):
        self.pkgs = pkgs
        self.repo = repo
        t0 = time.time()
        self.prog = S.load_program(repo, ['./' + p[len(MOD) + 1:] for p in pkgs], os.path.join(VERIF, 'bin', 'ssajson'), goarch=goarch)
        self.load_s = time.time() - t0
        self.specs = load_specs(repo, pkgs)
        self.byspec = {}
        for full in self.prog.funcs:
            pkg, short = spec_key(full)
            self.byspec['%s::%s' % (pkg, short)] = full
        self.workdir = workdir or tempfile.mkdtemp(prefix='gowp-')
        self.unbound = [k for k in self.specs.funcs if k not in self.byspec and not self.specs.funcs[k].trusted and '::' in k and k.split('::')[0] in pkgs]

    def resolver(self, callee):
        pkg, short = spec_key(callee)
        sp = self.specs.funcs.get('%s::%s' % (pkg, short))
        if sp is None:
            sp = self.specs.funcs.get('::' + callee) or self.specs.funcs.get(callee)
        return sp

    def claimed_functions(self, prop=None):
        out = []
        for k, sp in sorted(self.specs.funcs.items()):
            full = self.byspec.get(k)
            if full is None or sp.trusted:
                continue
            if prop is None or prop in sp.props or any(prop in (c.props or ()) for c in sp.ensures):
                out.append(full)
        for n, lem in sorted(self.specs.lemmas.items()):
            if lem.trusted:
                continue
            if prop is None or prop in lem.props:
                out.append('lemma.' + n)
        return out

    def verify_function(self, full, timeout=10, jobs=16, prop=None, verbose=False):
        spec = self.resolver(full)
        res = {'func': full, 'obligations': [], 'error': None}
        t0 = time.time()
        try:
            if full.startswith('lemma.'):
                lem = self.specs.lemmas[full[6:]]
                v = LemmaVerifier(self.prog, self.specs, lem, lem.pkg, resolver=self.resolver)
                spec = None
            else:
                v = Verifier(self.prog, self.specs, full, resolver=self.resolver)
                v.spec = spec
            if spec:
                # re-read options that depend on the spec
                v.__init__(self.prog, self.specs, full, resolver=self.resolver)
                v.spec = spec
                v.wrap_types = set()
                for w in spec.opts.get('wrap', []):
                    v.wrap_types |= set(w.replace(',', ' ').split())
                v.track_init = any('init' in x for x in spec.opts.get('track', []))
                v.check_wide_ovf = any('int' in x.split() for x in spec.opts.get('ovf', []))
            ctx = v.run()
        except (Unsupported, SpecError) as ex:
            res['error'] = '%s: %s' % (type(ex).__name__, ex)
            res['gen_s'] = time.time() - t0
            return res
        res['gen_s'] = time.time() - t0
        res['loop_problems'] = v.loop_problems
        res['trusted'] = sorted(v.trusted)
        res['notes'] = sorted(set(ctx.notes))
        res['callees'] = sorted(v.callees)
        res['nreq'] = v.nreq
        obs = ctx.obligations
        # vacuity canaries: "false" at function entry (requires satisfiable) and at each return must NOT be provable
        canaries = []
        from .exec import Obligation
        cn = Obligation(short_fn(full) + '/canary.requires', 'canary', TRUE, FALSE, 0, v.entry_nassert)
        cn.trivial = False
        canaries.append(cn)
        for i, (pc, line) in enumerate(v.returns):
            cn = Obligation(short_fn(full) + '/canary.return#%d' % i, 'canary', pc, FALSE, line or 0, len(ctx.asserts))
            cn.trivial = False
            canaries.append(cn)

        def work(ob):
            if ob.kind == 'canary':
                r = solve.check(ctx, ob, 2, self.workdir, order=('z3new',))
            else:
                r = solve.check(ctx, ob, timeout, self.workdir)
            return ob, r
        with ThreadPoolExecutor(max_workers=jobs) as pool:
            for ob, r in pool.map(work, obs + canaries):
                ob.result = r
                if ob.kind == 'canary':
                    continue
                res['obligations'].append({'name': ob.name, 'kind': ob.kind, 'line': ob.line, 'status': r['status'], 'solver': r['solver'],
                                           'time': round(r['time'], 3), 'clause': ob.info.get('clause'), 'props': sorted(ob.props) if ob.props else None})
        vac = {}
        vac['requires_sat'] = 'unsat' if canaries[0].result['status'] == 'unsat' else 'ok'
        rets = [c_.result['status'] for c_ in canaries[1:]]
        vac['return_reachable'] = 'no-return' if not rets else ('unsat' if all(x == 'unsat' for x in rets) else 'ok')
        vac['dead_returns'] = sum(1 for x in rets if x == 'unsat')
        res['vacuity'] = vac
        res['ctx'] = ctx
        res['verifier'] = v
        res['solve_s'] = time.time() - t0 - res['gen_s']
        return res


def main(argv=None):
    ap = argparse.ArgumentParser()
    ap.add_argument('cmd')
    ap.add_argument('args', nargs='*')
    ap.add_argument('--pkgs', default='src/util,src/algo')
    ap.add_argument('--timeout', type=int, default=10)
    ap.add_argument('--func', action='append')
    ap.add_argument('-v', action='store_true')
    ap.add_argument('--dump', default=None)
    a = ap.parse_args(argv)
    pkgs = [MOD + '/' + p for p in a.pkgs.split(',')]
    if a.cmd == 'verify':
        ses = Session(pkgs)
        if ses.unbound:
            print('UNBOUND contracts:', ses.unbound)
        funcs = []
        for f in (a.func or []):
            cands = [x for x in ses.prog.funcs if x == f or short_fn(x) == f or short_fn(x).split('.', 1)[-1] == f]
            if f.startswith('lemma.') and f[6:] in ses.specs.lemmas:
                cands = [f]
            funcs += cands
        if not funcs:
            funcs = ses.claimed_functions()
        bad = 0
        for f in funcs:
            r = ses.verify_function(f, a.timeout)
            if r['error']:
                print('%-50s ERROR %s' % (short_fn(f), r['error']))
                bad += 1
                continue
            obs = r['obligations']
            nd = sum(1 for o in obs if o['status'] == 'unsat')
            print('%-50s %d/%d discharged  gen %.1fs solve %.1fs  vac=%s %s' % (short_fn(f), nd, len(obs), r['gen_s'], r['solve_s'], r['vacuity'], r['loop_problems'] or ''))
            for o in obs:
                if o['status'] != 'unsat' or a.v:
                    print('    %-8s %-60s L%-5d %s %.2fs %s' % (o['status'], o['name'], o['line'], o['solver'], o['time'], (o['clause'] or '')[:90]))
                    if o['status'] != 'unsat':
                        bad += 1
            if a.dump:
                for ob in r['ctx'].obligations:
                    if a.dump in ob.name:
                        open('/tmp/dump.smt2', 'w').write(solve.emit(r['ctx'], ob))
                        print('dumped', ob.name)
        shutil.rmtree(ses.workdir, ignore_errors=True)
        return 1 if bad else 0


if __name__ == '__main__':
    sys.exit(main())
