"""Replay of solver counterexamples against the real code.

For a failed obligation with a `sat` answer the model's values of the function's inputs are turned into
Go literals; an in-package test injected with `go test -overlay` (nothing is written into the repository)
calls the real function on them.  The violation is confirmed when
  * a safety obligation (index, slice, nil, makeslice, div0, panic, conversion) actually panics, or
  * for a contract clause, the real function returns exactly the outputs the counter-model predicts
    (so the clause, false on those values in the model, is false on a real execution).
Anything else is reported as no-failing-input-found, with the solver output kept in the replay file."""
import json
import os
import re
import subprocess
import tempfile

from .term import *
from .values import *
from . import solve

MOD = 'github.com/junegunn/fzf'
MAXELEMS = 16
SAFETY = ('idx', 'slice', 'nil', 'makeslice', 'div0', 'panic', 'conv', 'ovf')


class NoReplay(Exception):
    pass


class Builder(object):
    """collects the terms whose model values are needed and later renders Go expressions"""

    def __init__(self, v, st):
        self.v = v
        self.st = st
        self.terms = []
        self.index = {}

    def want(self, t):
        k = smt(t)
        if k not in self.index:
            self.index[k] = len(self.terms)
            self.terms.append(t)
        return k

    def plan(self, val, tid, depth=0):
        """returns a plan tree describing how to render val once the model is known"""
        v = self.v
        k = v.kind(tid)
        if isinstance(val, T):
            return ('scalar', self.want(val), tid)
        if isinstance(val, StrV):
            h = v.heap_get(self.st, 'HS:uint8', arr(ARR_II))
            return ('string', self.want(val.len), [self.want(select(select(h, val.arr), add(val.off, I(j)))) for j in range(MAXELEMS)])
        if isinstance(val, SliceV):
            if not v.is_scalar(val.elem):
                raise NoReplay('slice of %s' % val.elem)
            h = v.heap_get(self.st, v.hs_name(val.elem), v.hs_sort(val.elem))
            return ('slice', val.elem, self.want(val.len), self.want(val.cap), self.want(val.arr),
                    [self.want(select(select(h, val.arr), add(val.off, I(j)))) for j in range(MAXELEMS)])
        if isinstance(val, PtrV):
            if val.term is None:
                raise NoReplay('local address')
            if depth > 0:
                raise NoReplay('nested pointer')
            et = val.elem
            tn = v.tname(et)
            if v.kind(et) == 'basic' and v.is_scalar(et) and not v.is_string(et):
                cell = v.load(self.st, ('obj', et, val.term))
                return ('ptrscalar', et, self.want(val.term), self.plan(cell, et))
            if v.kind(et) != 'struct':
                raise NoReplay('pointer to %s' % et)
            fields = {}
            strict = tn.endswith(('util.Chars', 'util.Slab'))
            for f in v.struct_fields(et):
                try:
                    fv = v.field_load(self.st, et, val.term, f['name'], f['type'])
                    fields[f['name']] = self.plan(fv, f['type'], depth + 1)
                except (NoReplay, Unsupported):
                    if strict:
                        raise
                    # a field that cannot be rendered (files, channels, interfaces, ...) keeps its zero value
            return ('ptr', tn, self.want(val.term), fields)
        if isinstance(val, StructV):
            if '/' in v.tname(val.tid) and not v.tname(val.tid).startswith(v.fn['pkg'] + '.') or ('.' in v.tname(val.tid) and v.tname(val.tid).rsplit('.', 1)[0] != v.fn['pkg']):
                raise NoReplay('struct of another package')
            return ('struct', v.tname(val.tid), dict((f['name'], self.plan(val.f[f['name']], f['type'], depth + 1)) for f in v.struct_fields(val.tid)))
        raise NoReplay('value %r' % (val,))


def gotype(v, tid):
    t = v.prog.types[tid]
    k = t['kind']
    if k == 'basic':
        return t['name']
    if k == 'named':
        pk = t.get('pkg', '')
        return (pk.split('/')[-1] + '.' if pk and pk != v.fn['pkg'] else '') + t['name']
    if k == 'slice':
        return '[]' + gotype(v, t['elem'])
    if k == 'pointer':
        return '*' + gotype(v, t['elem'])
    raise NoReplay('type %s' % tid)


def render(v, plan, model, imports):
    kind = plan[0]
    if kind == 'scalar':
        val = model.get(plan[1])
        tid = plan[2]
        if isinstance(val, bool):
            return 'true' if val else 'false'
        if val is None:
            # not mentioned by the solver: any value will do
            return 'false' if v.is_bool(tid) else '%s(0)' % gotype(v, tid)
        return '%s(%d)' % (gotype(v, tid), val)
    if kind == 'string':
        n = model.get(plan[1]) or 0
        if n > MAXELEMS:
            raise NoReplay('string of length %d' % n)
        bs = [(model.get(k) or 0) & 255 for k in plan[2][:n]]
        return 'string([]byte{%s})' % ', '.join(str(b) for b in bs)
    if kind == 'slice':
        et, n, cp = plan[1], model.get(plan[2]) or 0, model.get(plan[3]) or 0
        arr_ = model.get(plan[4])
        if n > MAXELEMS or cp > 1 << 20:
            raise NoReplay('slice of length %d cap %d' % (n, cp))
        if arr_ == 0 and n == 0:
            return '%s(nil)' % gotype(v, '[]' + et if ('[]' + et) in v.prog.types else et)
        elems = [model.get(k) or 0 for k in plan[5][:n]]
        gt = gotype(v, et)
        return 'append(make([]%s, 0, %d), []%s{%s}...)' % (gt, max(cp, n), gt, ', '.join(str(e) for e in elems))
    if kind == 'ptrscalar':
        if model.get(plan[2]) == 0:
            return 'nil'
        gt = gotype(v, plan[1])
        return 'func() *%s { x := %s; return &x }()' % (gt, render(v, plan[3], model, imports))
    if kind == 'ptr':
        tn, addr, fields = plan[1], model.get(plan[2]), plan[3]
        if addr == 0:
            return 'nil'
        if tn.endswith('util.Chars'):
            imports.add(MOD + '/src/util')
            inb = model.get(fields['inBytes'][1])
            sl = fields['slice']
            n = model.get(sl[2]) or 0
            if n > MAXELEMS:
                raise NoReplay('text of length %d' % n)
            if inb:
                bs = [(model.get(k) or 0) & 127 for k in sl[5][:n]]
                return 'charsPtr(util.ToChars([]byte{%s}))' % ', '.join(str(b) for b in bs)
            # runes live in the int32 view of the same array
            h = v.heap_get(_ST[0], 'HS:int32', arr(ARR_II))
            raise NoReplay('rune text needs the int32 view (not extracted)')
        if tn.endswith('util.Slab'):
            imports.add(MOD + '/src/util')
            i16 = render(v, fields['I16'], model, imports)
            i32 = render(v, fields['I32'], model, imports)
            return '&util.Slab{I16: %s, I32: %s}' % (i16, i32)
        short = tn.split('.')[-1]
        return '&%s{%s}' % (short, ', '.join('%s: %s' % (fn, render(v, fp, model, imports)) for fn, fp in fields.items()))
    if kind == 'struct':
        short = plan[1].split('.')[-1]
        return '%s{%s}' % (short, ', '.join('%s: %s' % (fn, render(v, fp, model, imports)) for fn, fp in plan[2].items()))
    raise NoReplay(kind)


_ST = [None]


def try_replay(ses, g, ob, r, ground=False):
    v = g['verifier']
    fn = v.fn
    details = {'status': 'not-attempted'}
    if getattr(v, 'start_block', 0):
        # a region contract starts from a state in the middle of the function: there is no call that sets it up
        raise NoReplay('region contract: the state at the start of the region is not an input of the function')
    if fn.get('recv') and False:
        return False, details
    try:
        st = v.old            # entry state: parameter values and the heap the function started with
        _ST[0] = st
        b = Builder(v, st)
        plans = []
        for p in fn['params']:
            plans.append((p['name'], p['type'], b.plan(v.param_vals[p['name']], p['type'])))
        res_terms = []
        for rv in (ob.info.get('results') or []):
            if isinstance(rv, T):
                res_terms.append(b.want(rv))
            else:
                res_terms.append(None)
        # second solver call: same query, now asking for the values
        text = solve.emit(g['ctx'], ob, b.terms, ground=ground)
        solver = r['solver'] if r['solver'] in solve.SOLVERS else 'z3new'
        if solver == 'cvc5':
            text = solve.emit(g['ctx'], ob, b.terms, for_cvc5=True, ground=ground)
        stt, outp, dt = solve.run_solver(solver, text, 20, ses.workdir)
        vals = solve.parse_values(outp) if stt == 'sat' else {}
        if stt != 'sat' or len(vals) < len(b.terms):
            # model evaluation under quantified facts can hang: take the candidate from the quantifier-free part
            # of the same query (it is only a candidate - the run of the real code below decides)
            text = solve.emit(g['ctx'], ob, b.terms, for_cvc5=(solver == 'cvc5'), ground=True)
            stt2, outp2, dt2 = solve.run_solver(solver, text, 30, ses.workdir)
            if stt2 == 'sat':
                vals2 = solve.parse_values(outp2)
                if len(vals2) >= len(vals):
                    stt, outp, vals = stt2, outp2, vals2
        if stt != 'sat':
            details = {'status': 'no-model', 'solver_status': stt}
            return False, details
        details_dbg = outp[:1500]
        model = {}
        for k in b.index:
            model[k] = vals.get(k)
        imports = set(['testing', 'fmt'])
        args = []
        for name, tid, plan in plans:
            args.append(render(v, plan, model, imports))
        pkgdir = os.path.dirname(fn['file'])
        pkgname = open(fn['file']).read().split('package ', 1)[1].split()[0]
        short = fn['short']
        recv = fn.get('recv')
        if recv:
            call = '(%s).%s(%s)' % (args[0], short, ', '.join(args[1:]))
        else:
            call = '%s(%s)' % (short, ', '.join(args))
        nres = len(fn['results'])
        lhs = ', '.join('r%d' % i for i in range(nres))
        code = ['package %s' % pkgname, '', 'import (']
        for im in sorted(imports):
            code.append('\t"%s"' % im)
        code += [')', '']
        if any('charsPtr' in a for a in args):
            code += ['func charsPtr(c util.Chars) *util.Chars { return &c }', '']
        code += ['func TestGowpReplay(t *testing.T) {',
                 '\tdefer func() {',
                 '\t\tif e := recover(); e != nil {',
                 '\t\t\tfmt.Printf("GOWP-REPLAY panic: %v\\n", e)',
                 '\t\t}',
                 '\t}()']
        if nres:
            code.append('\t%s := %s' % (lhs, call))
            code.append('\tfmt.Printf("GOWP-REPLAY results: %s\\n", %s)' % (' | '.join(['%v'] * nres), lhs))
        else:
            code.append('\t%s' % call)
            code.append('\tfmt.Printf("GOWP-REPLAY results:\\n")')
        code.append('}')
        src = '\n'.join(code) + '\n'
        tmp = tempfile.mkdtemp(prefix='gowp-replay-')
        tf = os.path.join(tmp, 'zz_gowp_replay_test.go')
        open(tf, 'w').write(src)
        ov = os.path.join(tmp, 'ov.json')
        json.dump({'Replace': {os.path.join(pkgdir, 'zz_gowp_replay_test.go'): tf}}, open(ov, 'w'))
        env = dict(os.environ, GOFLAGS='-mod=mod', GOPROXY='off', GOSUMDB='off', GOTOOLCHAIN='local')
        p = subprocess.run(['bash', '-c', 'ulimit -v 4000000; cd %s && go test -v -overlay %s -vet=off -count=1 -timeout 60s -run TestGowpReplay . 2>&1' % (pkgdir, ov)],
                           stdout=subprocess.PIPE, env=env, timeout=180)
        out = p.stdout.decode('utf8', 'replace')
        import shutil
        shutil.rmtree(tmp, ignore_errors=True)
        details = {'status': 'ran', 'solver_values': details_dbg, 'go_test': src, 'output': out[-3000:], 'call': call}
        m_p = re.search(r'GOWP-REPLAY panic: (.*)', out)
        m_r = re.search(r'GOWP-REPLAY results: (.*)', out)
        if m_p:
            details['observed'] = 'panic: ' + m_p.group(1)
            if ob.kind in SAFETY:
                details['verdict'] = 'confirmed: the real function panics on the counterexample'
                return True, details
            details['verdict'] = 'the real function panics on the counterexample (obligation kind %s)' % ob.kind
            return True, details
        if m_r is not None or 'GOWP-REPLAY results:' in out:
            got = (m_r.group(1) if m_r else '').strip()
            details['observed'] = got
            pred = []
            for k in res_terms:
                pred.append(model.get(k) if k is not None else None)
            details['model_results'] = pred
            if ob.kind in SAFETY:
                details['verdict'] = 'the real function does not panic on this input'
                return False, details
            if pred and all(x is not None for x in pred):
                exp = ' | '.join(('true' if x is True else 'false' if x is False else str(x)) for x in pred)
                if exp == got:
                    details['verdict'] = 'confirmed: the real function returns exactly the outputs of the counter-model, on which the clause is false'
                    return True, details
            details['verdict'] = 'real outputs differ from the counter-model (the model used an abstraction)'
            return False, details
        details['verdict'] = 'replay did not run to completion'
        return False, details
    except NoReplay as ex:
        return False, {'status': 'unsupported-shape', 'reason': str(ex)}
    except subprocess.TimeoutExpired:
        return False, {'status': 'timeout'}
