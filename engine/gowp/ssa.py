"""Loading the go/ssa JSON dump and CFG analyses (dominators, natural loops,
local-cell classification)."""
import json
import os
import subprocess

INT_RANGES = {
    'int8': (-2**7, 2**7 - 1), 'int16': (-2**15, 2**15 - 1), 'int32': (-2**31, 2**31 - 1), 'int64': (-2**63, 2**63 - 1),
    'int': (-2**63, 2**63 - 1), 'uint8': (0, 2**8 - 1), 'uint16': (0, 2**16 - 1), 'uint32': (0, 2**32 - 1),
    'uint64': (0, 2**64 - 1), 'uint': (0, 2**64 - 1), 'uintptr': (0, 2**64 - 1), 'byte': (0, 255), 'rune': (-2**31, 2**31 - 1),
    'untyped int': None, 'untyped rune': None,
}
WIDE = {'int', 'int64', 'uint', 'uint64', 'uintptr'}


class Program(object):
    def __init__(self, data):
        self.funcs = data['funcs']
        self.globals = data['globals']
        self.consts = data['consts']
        self.types = data['types']
        self._under = {}

    def private_globals(self):
        """unexported package-level variables whose address never leaves load/store/index positions in any
        function of the (loaded) package: no parameter, result or heap cell can ever point into their storage"""
        if getattr(self, '_priv', None) is not None:
            return self._priv
        esc = set()
        pkgs = set()
        fl = list(self.funcs.values()) if isinstance(self.funcs, dict) else list(self.funcs)

        def operands(ins):
            for k, v in ins.items():
                if isinstance(v, dict):
                    if 'k' in v:
                        yield k, v
                    else:
                        for k2, v2 in v.items():
                            if isinstance(v2, dict) and 'k' in v2:
                                yield k + '.' + k2, v2
                            elif isinstance(v2, list):
                                for e in v2:
                                    if isinstance(e, dict) and 'k' in e:
                                        yield k + '.' + k2, e
                elif isinstance(v, list):
                    for e in v:
                        if isinstance(e, dict):
                            if 'k' in e:
                                yield k, e
                            else:
                                for k2, v2 in e.items():
                                    if isinstance(v2, dict) and 'k' in v2:
                                        yield k + '.' + k2, v2
        for f in fl:
            pkgs.add(f.get('pkg'))
            derived = {}

            def g_of(v):
                if v.get('k') == 'global':
                    return v['n']
                if v.get('k') == 'reg':
                    return derived.get(v['n'])
                return None
            for _ in range(3):
                for b in f.get('blocks') or []:
                    for ins in b['instrs']:
                        if ins['op'] in ('IndexAddr', 'FieldAddr'):
                            g = g_of(ins['x'])
                            if g:
                                derived[ins['name']] = g
            for b in f.get('blocks') or []:
                for ins in b['instrs']:
                    op = ins['op']
                    for key, v in operands(ins):
                        g = g_of(v)
                        if not g:
                            continue
                        ok = (op in ('IndexAddr', 'FieldAddr') and key == 'x') or (op == 'UnOp' and ins.get('unop') == '*' and key == 'x') or (op == 'Store' and key == 'addr')
                        if not ok:
                            esc.add(g)
        priv = set()
        for g in self.globals:
            pk, nm = g.rsplit('.', 1)
            if pk in pkgs and g not in esc and (nm[:1].islower() or nm[:1] == '_'):
                priv.add(g)
        self._priv = priv
        return priv

    def sliced_arrays(self):
        """array types that some function slices through a pointer (slice literals, buf[:]): these stay in the
        slice heaps; all other small scalar arrays are stored per index"""
        if getattr(self, '_sliced', None) is None:
            s = set()
            fl = self.funcs.values() if isinstance(self.funcs, dict) else self.funcs
            for f in fl:
                for b in f.get('blocks') or []:
                    for ins in b['instrs']:
                        if ins.get('op') == 'Slice':
                            t = (ins.get('x') or {}).get('type', '')
                            if t.startswith('*'):
                                s.add(t[1:])
                                tt = self.types.get(t[1:])
                                while tt is not None and tt['kind'] == 'named':
                                    s.add(tt['underlying'])
                                    tt = self.types.get(tt['underlying'])
            self._sliced = s
        return self._sliced

    # ---- types
    def under(self, tid):
        """underlying type entry (follows named)"""
        t = self.types[tid]
        while t['kind'] == 'named':
            t = self.types[t['underlying']]
        return t

    def kind(self, tid):
        return self.under(tid)['kind']

    def basic_name(self, tid):
        t = self.under(tid)
        if t['kind'] != 'basic':
            return None
        n = t['name']
        if n == 'byte':
            return 'uint8'
        if n == 'rune':
            return 'int32'
        return n

    def is_intlike(self, tid):
        t = self.under(tid)
        return t['kind'] == 'basic' and t.get('isint')

    def int_range(self, tid):
        n = self.basic_name(tid)
        return INT_RANGES.get(n)

    def struct_name(self, tid):
        """canonical name for a struct-like type (used in heap names)"""
        t = self.types[tid]
        if t['kind'] == 'named':
            return (t.get('pkg', '') + '.' if t.get('pkg') else '') + t['name']
        return tid

    def short(self, tid):
        return tid.replace('github.com/junegunn/fzf/src/', '').replace('github.com/junegunn/fzf/', '')


def load_program(repo, pkgs, ssajson_bin, tags='verif', goarch=None, cache=None):
    env = dict(os.environ)
    env.update({'GOFLAGS': '-mod=mod', 'GOPROXY': 'off', 'GOSUMDB': 'off', 'GOTOOLCHAIN': 'local'})
    if goarch:
        env['GOARCH'] = goarch
    p = subprocess.run([ssajson_bin, '-dir', repo, '-tags', tags] + list(pkgs), stdout=subprocess.PIPE,
                       stderr=subprocess.PIPE, env=env)
    if p.returncode != 0:
        raise RuntimeError('ssajson failed: ' + p.stderr.decode('utf8', 'replace')[-4000:])
    return Program(json.loads(p.stdout.decode('utf8')))


# ------------------------------------------------------------------ CFG
class CFG(object):
    def __init__(self, fn):
        self.fn = fn
        self.blocks = fn['blocks']
        n = len(self.blocks)
        self.n = n
        self.succs = [list(b['succs']) for b in self.blocks]
        self.preds = [list(b['preds']) for b in self.blocks]
        self.reach = self._reachable()
        self.idom = self._dominators()
        self.loops = self._loops()          # header -> Loop
        self._nest()

    def _reachable(self):
        seen = set([0])
        st = [0]
        while st:
            b = st.pop()
            for s in self.succs[b]:
                if s not in seen:
                    seen.add(s)
                    st.append(s)
        return seen

    def _dominators(self):
        # iterative algorithm (Cooper-Harvey-Kennedy)
        order = []
        seen = set()

        def dfs(b):
            stack = [(b, iter(self.succs[b]))]
            seen.add(b)
            while stack:
                x, it = stack[-1]
                adv = False
                for s in it:
                    if s not in seen:
                        seen.add(s)
                        stack.append((s, iter(self.succs[s])))
                        adv = True
                        break
                if not adv:
                    order.append(x)
                    stack.pop()
        dfs(0)
        rpo = list(reversed(order))
        self.rpo = rpo
        num = {b: i for i, b in enumerate(rpo)}
        idom = {0: 0}
        changed = True
        while changed:
            changed = False
            for b in rpo[1:]:
                ps = [p for p in self.preds[b] if p in idom]
                if not ps:
                    continue
                new = ps[0]
                for p in ps[1:]:
                    a, c = p, new
                    while a != c:
                        while num[a] > num[c]:
                            a = idom[a]
                        while num[c] > num[a]:
                            c = idom[c]
                    new = a
                if idom.get(b) != new:
                    idom[b] = new
                    changed = True
        return idom

    def dominates(self, a, b):
        while True:
            if a == b:
                return True
            if b == 0 or b not in self.idom:
                return False
            b = self.idom[b]

    def _loops(self):
        loops = {}
        for b in self.reach:
            for s in self.succs[b]:
                if self.dominates(s, b):  # back edge b -> s
                    lp = loops.get(s)
                    if lp is None:
                        lp = Loop(s)
                        loops[s] = lp
                    lp.backedges.append(b)
                    # natural loop body
                    body = lp.body
                    body.add(s)
                    st = [b]
                    while st:
                        x = st.pop()
                        if x in body:
                            continue
                        body.add(x)
                        st.extend(p for p in self.preds[x] if p in self.reach)
        return loops

    def _nest(self):
        hs = sorted(self.loops, key=lambda h: len(self.loops[h].body))
        for h in hs:
            lp = self.loops[h]
            parent = None
            for h2 in hs:
                if h2 != h and h in self.loops[h2].body and len(self.loops[h2].body) > len(lp.body):
                    parent = h2
                    break
            lp.parent = parent
        for h, lp in self.loops.items():
            lp.exits = [(b, s) for b in lp.body for s in self.succs[b] if s not in lp.body]

    def loop_of(self, b):
        """innermost loop containing block b (header) or None"""
        best = None
        for h, lp in self.loops.items():
            if b in lp.body and (best is None or len(lp.body) < len(self.loops[best].body)):
                best = h
        return best


class Loop(object):
    def __init__(self, header):
        self.header = header
        self.body = set()
        self.backedges = []
        self.parent = None
        self.exits = []
        self.ordinal = None
        self.ast = None


def bind_ast_loops(cfg):
    """Match natural loops (by header block index order) to AST loops in source pre-order.
    Returns list of problems."""
    fn = cfg.fn
    ast_loops = fn.get('loops') or []
    headers = sorted(cfg.loops)
    problems = []

    def loop_lines(lp):
        ls = []
        for b in lp.body:
            for ins in cfg.blocks[b]['instrs']:
                if ins.get('line'):
                    ls.append(ins['line'])
        return ls
    if len(headers) == len(ast_loops):
        # order by first line of header's instructions as a sanity check
        cand = list(zip(headers, ast_loops))
    else:
        # goto-formed loops or dead loops: match by line containment greedily
        cand = []
        used = set()
        for h in headers:
            ls = loop_lines(cfg.loops[h])
            best = None
            for i, al in enumerate(ast_loops):
                if i in used:
                    continue
                if ls and al['line'] <= min(ls) and max(ls) <= al['endline']:
                    if best is None or (al['endline'] - al['line']) < (ast_loops[best]['endline'] - ast_loops[best]['line']):
                        best = i
            if best is None:
                problems.append('loop at block %d has no AST loop' % h)
                cand.append((h, None))
            else:
                used.add(best)
                cand.append((h, ast_loops[best]))
    for h, al in cand:
        lp = cfg.loops[h]
        lp.ast = al
        if al is not None:
            lp.ordinal = ast_loops.index(al) + 1
            ls = loop_lines(lp)
            if ls and not (al['line'] <= min(ls) and max(ls) <= al['endline']):
                # retry: lines of the body may include the post statement on the for line; containment should still hold
                problems.append('loop %d (block %d) lines %d..%d outside AST loop %d..%d' % (lp.ordinal, h, min(ls), max(ls), al['line'], al['endline']))
    return problems


def classify_allocs(fn):
    """Returns (cells, escaping): Alloc names that are only loaded/stored directly (or through
    FieldAddr/IndexAddr chains that are themselves only loaded/stored) vs. those whose address escapes."""
    allocs = {}
    derived = {}   # reg name -> root alloc name (for FieldAddr/IndexAddr of alloc)
    for b in fn['blocks']:
        for ins in b['instrs']:
            if ins['op'] == 'Alloc':
                allocs[ins['name']] = ins
    escaping = set()

    def root(v):
        if v is None or v.get('k') != 'reg':
            return None
        n = v['n']
        if n in allocs:
            return n
        return derived.get(n)
    # iterate to fixpoint for derived addresses (blocks may be visited out of def order)
    changed = True
    while changed:
        changed = False
        for b in fn['blocks']:
            for ins in b['instrs']:
                op = ins['op']
                if op in ('FieldAddr', 'IndexAddr') or (op in ('Convert', 'ChangeType') and ins['x'].get('k') == 'reg'):
                    r = root(ins['x'])
                    if r is not None and ins['name'] not in derived:
                        # IndexAddr on a cell holding an array (pointer to array) is a derived address;
                        derived[ins['name']] = r
                        changed = True
    for b in fn['blocks']:
        for ins in b['instrs']:
            op = ins['op']

            def esc(v):
                r = root(v)
                if r is not None:
                    escaping.add(r)
            if op == 'Store':
                esc(ins['val'])          # address stored somewhere
            elif op == 'UnOp':
                if ins['unop'] != '*':
                    esc(ins['x'])
            elif op in ('FieldAddr', 'Convert', 'ChangeType'):
                pass
            elif op == 'IndexAddr':
                esc(ins['index'])
            elif op in ('Call', 'Go', 'Defer'):
                c = ins['call']
                for a in c['args']:
                    esc(a)
                esc(c.get('value'))
            elif op == 'MakeClosure':
                for a in ins['bindings']:
                    esc(a)
            elif op == 'Return':
                for a in ins['results']:
                    esc(a)
            elif op == 'Phi':
                for a in ins['edges']:
                    esc(a)
            elif op == 'Slice':
                # slicing a pointer-to-array cell: array escapes as a slice backing store
                esc(ins['x'])
            elif op in ('Alloc', 'Jump', 'If', 'RunDefers'):
                pass
            else:
                for k, v in ins.items():
                    if isinstance(v, dict) and 'k' in v:
                        esc(v)
                    elif isinstance(v, list):
                        for x in v:
                            if isinstance(x, dict) and 'k' in x:
                                esc(x)
    cells = set(allocs) - escaping
    return allocs, cells, escaping, derived
