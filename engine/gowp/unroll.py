"""Static loop unrolling for bounded mode: produces an acyclic copy of a function's CFG.

Every loop is replaced by K copies of its body; the back edge of the last copy goes to an UNWIND
block whose reachability is an obligation (unwinding assertion), so a bound that is too small is
reported, never silently accepted."""
import copy
from . import ssa as S


class Node(object):
    __slots__ = ('id', 'orig', 'instrs', 'succs', 'comment', 'origpreds', 'it')

    def __init__(self, id_, orig, instrs, succs, comment, origpreds, it=()):
        self.id, self.orig, self.instrs, self.succs, self.comment, self.origpreds, self.it = id_, orig, instrs, list(succs), comment, origpreds, it


def unroll_function(fn, bound_for_loop, default_bound=2):
    """bound_for_loop: dict loop ordinal -> max iterations.  Returns a new function dict (acyclic)."""
    cfg0 = S.CFG(fn)
    S.bind_ast_loops(cfg0)
    ordinal_of_header = dict((h, lp.ordinal) for h, lp in cfg0.loops.items())
    nodes = {}
    for b in fn['blocks']:
        nodes[b['index']] = Node(b['index'], b['index'], b['instrs'], b['succs'], b['comment'], list(b['preds']))
    nextid = [max(nodes) + 1]
    UNWIND = nextid[0]
    nextid[0] += 1
    nodes[UNWIND] = Node(UNWIND, -1, [{'op': 'Unwind', 'line': 0}], [], 'unwind', [])
    entry = 0

    def build_cfg():
        ids = sorted(nodes)
        idx = dict((n, i) for i, n in enumerate(ids))
        blocks = []
        preds = dict((n, []) for n in ids)
        for n in ids:
            for s in nodes[n].succs:
                preds[s].append(n)
        for n in ids:
            blocks.append({'index': idx[n], 'comment': nodes[n].comment, 'preds': [idx[p] for p in preds[n]], 'succs': [idx[s] for s in nodes[n].succs], 'instrs': nodes[n].instrs})
        return ids, idx, blocks

    rounds = 0
    while True:
        rounds += 1
        if rounds > 64:
            raise RuntimeError('unroll: too many rounds')
        ids, idx, blocks = build_cfg()
        f2 = {'blocks': blocks}
        cfg = S.CFG(f2)
        if not cfg.loops:
            break
        # innermost loop: body contains no other header
        hs = sorted(cfg.loops, key=lambda h: len(cfg.loops[h].body))
        h = hs[0]
        lp = cfg.loops[h]
        body = set(ids[b] for b in lp.body)
        hnode = ids[h]
        ordn = ordinal_of_header.get(nodes[hnode].orig)
        K = bound_for_loop.get(ordn, default_bound) + 1
        backsrc = set(ids[b] for b in lp.backedges)
        copies = []
        for i in range(K):
            m = {}
            for x in body:
                if i == 0:
                    m[x] = x
                else:
                    nid = nextid[0]
                    nextid[0] += 1
                    m[x] = nid
            copies.append(m)
        orig_succs = dict((x, list(nodes[x].succs)) for x in body)
        orig_nodes = dict((x, nodes[x]) for x in body)
        for i in range(K):
            m = copies[i]
            for x in body:
                on = orig_nodes[x]
                ns = []
                for s in orig_succs[x]:
                    if s == hnode and x in backsrc:
                        ns.append(copies[i + 1][hnode] if i + 1 < K else UNWIND)
                    elif s in body:
                        ns.append(m[s])
                    else:
                        ns.append(s)
                if i == 0:
                    on.succs = ns
                    on.it = on.it + (0,)
                else:
                    nodes[m[x]] = Node(m[x], on.orig, on.instrs, ns, on.comment, on.origpreds, on.it[:-1] + (i,))
    ids, idx, blocks = build_cfg()
    # drop unreachable nodes
    for b, n in zip(blocks, ids):
        b['orig'] = nodes[n].orig
        b['origpreds'] = nodes[n].origpreds
        b['predorig'] = [nodes[ids[p]].orig for p in b['preds']]
    nf = dict(fn)
    nf['blocks'] = blocks
    nf['loops'] = []
    nf['unrolled'] = True
    return nf
