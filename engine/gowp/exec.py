"""Symbolic executor / verification-condition generator over go/ssa (NaiveForm).

One pass over the function's CFG with back edges removed: states are merged
at joins (ite), loops are cut at their headers (assert invariant, havoc,
assume invariant; assert invariant + decreases on back edges).  Every potential
fault and every contract clause becomes a named obligation."""
import re
import os
from .term import *
from .values import *
from . import ssa as S
from .spec import parse_expr, SpecError

MAXLEN = 2 ** 47
NEGFAR = I(-(2 ** 62))


class Obligation(object):
    def __init__(self, name, kind, pc, cond, line, nassert, info=None, props=None):
        self.name = name
        self.kind = kind
        self.pc = pc
        self.cond = cond
        self.line = line
        self.nassert = nassert      # number of context assertions visible
        self.info = info or {}
        self.props = props
        self.result = None
        self.func = None


class State(object):
    __slots__ = ('pc', 'regs', 'cells', 'heap', 'alloc', 'ghost')

    def __init__(self):
        self.pc = TRUE
        self.regs = {}
        self.cells = {}
        self.heap = {}
        self.alloc = None
        self.ghost = {}

    def copy(self):
        s = State()
        s.pc = self.pc
        s.regs = dict(self.regs)
        s.cells = dict(self.cells)
        s.heap = dict(self.heap)
        s.alloc = self.alloc
        s.ghost = dict(self.ghost)
        return s


class Ctx(object):
    """Per-function SMT context: declarations, assertions, obligations."""

    def __init__(self, prog, specs, fname):
        self.prog = prog
        self.specs = specs
        self.fname = fname
        self.decls = []          # (name, sort) or (name, argsorts, sort)
        self.declared = {}
        self.asserts = []        # Terms
        self.obligations = []
        self.counter = {}
        self.obcount = {}
        self.assumptions = set()
        self.trusted_used = set()
        self.specfun_decl = {}
        self.notes = []
        self.inputs = {}         # model extraction: label -> value structure
        self.ob_assume_idx = set()
        self.heap_bound = {}     # heap constant name -> alloc counter bounding every address stored in it

    def fresh(self, prefix, sort):
        n = self.counter.get(prefix, 0)
        self.counter[prefix] = n + 1
        name = '%s!%d' % (prefix, n) if n or True else prefix
        self.decls.append((name, None, sort))
        self.declared[name] = (None, sort)
        return const(name, sort)

    def declare_fun(self, name, argsorts, sort):
        if name in self.declared:
            return
        self.decls.append((name, tuple(argsorts), sort))
        self.declared[name] = (tuple(argsorts), sort)

    def declare_const(self, name, sort):
        if name in self.declared:
            assert self.declared[name][1] == sort, (name, sort, self.declared[name])
            return const(name, sort)
        self.decls.append((name, None, sort))
        self.declared[name] = (None, sort)
        return const(name, sort)

    def assume(self, t):
        if t.is_bool() and t.val:
            return
        self.asserts.append(t)

    def name(self, prefix, t):
        """give a compound term a name (keeps the SMT text a flat list of definitions)"""
        if t.op in ('const', 'int', 'bool'):
            return t
        for s_ in subterms(t):
            if s_.op == 'const' and ('?' in s_.val or s_.val.startswith('$') or (s_.val.endswith('!') and len(s_.val) <= 4)):
                return t        # mentions a bound variable: cannot be hoisted into a definition
        c = self.fresh(prefix, t.sort)
        self.asserts.append(eq(c, t))
        return c

    def oblige(self, kind, detail, pc, cond, line, info=None, props=None):
        base = '%s.%s' % (kind, detail) if detail else kind
        n = self.obcount.get(base, 0)
        self.obcount[base] = n + 1
        name = '%s/%s#%d' % (short_fn(self.fname), base, n)
        if cond.is_bool() and cond.val:
            triv = True
        else:
            triv = False
        ob = Obligation(name, kind, pc, cond, line, len(self.asserts), info, props)
        ob.trivial = triv or (pc.is_bool() and not pc.val)
        ob.func = self.fname
        self.obligations.append(ob)
        # assert-then-assume (remembered so that batched checks can leave these facts out)
        t_ = implies(pc, cond)
        if not (t_.is_bool() and t_.val):
            self.ob_assume_idx.add(len(self.asserts))
            self.asserts.append(t_)
        return ob


def short_fn(n):
    n = n.replace('github.com/junegunn/fzf/src/', '').replace('github.com/junegunn/fzf/', '').replace('(*', '').replace(')', '')
    return n[1:] if n.startswith('(') else n


# ---------------------------------------------------------------------------
class Exec(object):
    def __init__(self, prog, specs, fname, opts=None):
        self.prog = prog
        self.specs = specs
        self.fname = fname
        self.fn = prog.funcs[fname]
        if opts and opts.get('unroll') is not None:
            from .unroll import unroll_function
            self.fn = unroll_function(self.fn, opts['unroll'], opts.get('default_unroll', 2))
        self.ctx = Ctx(prog, specs, fname)
        self.opts = opts or {}
        self.spec = specs.funcs.get(fname)
        self.cfg = S.CFG(self.fn)
        self.loop_problems = S.bind_ast_loops(self.cfg)
        self.allocs, self.cellset, self.escaping, self.derived = S.classify_allocs(self.fn)
        self.wrap_types = set()
        self.track_init = False
        self.track_own = False
        self.scalar_targets = {}
        self.scan_scalar_targets()
        self.own_types = set()
        self.check_wide_ovf = False
        if self.spec:
            for w in self.spec.opts.get('wrap', []):
                self.wrap_types |= set(w.replace(',', ' ').split())
            if 'track' in self.spec.opts:
                self.track_init = any('init' in x for x in self.spec.opts['track'])
                for x_ in self.spec.opts['track']:
                    ws = x_.replace(',', ' ').split()
                    if ws and ws[0] == 'own':
                        self.track_own = True
                        self.own_types |= set('OWN:' + w for w in ws[1:])
            if 'ovf' in self.spec.opts:
                self.check_wide_ovf = any('int' in x.split() for x in self.spec.opts['ovf'])
        self.old = None
        self.alloc0 = None
        self.writable = None       # list of regions or None (no frame checking)
        self.loop_writes = []      # stack of active loop write regions
        self.cur_line = 0
        self.cellinfo = {}         # cell name -> (comment, declpos, elem tid)
        for n, a in self.allocs.items():
            self.cellinfo[n] = (a.get('comment', ''), '%d:%d' % (a.get('line', 0), a.get('col', 0)), a['elem'])
        self.srclines = None
        self.anchored = []

    # ------------------------------------------------------------------ types
    def T(self, tid):
        return self.prog.types[tid]

    def U(self, tid):
        return self.prog.under(tid)

    def kind(self, tid):
        return self.prog.kind(tid)

    def is_scalar(self, tid):
        k = self.kind(tid)
        return k in ('basic', 'pointer', 'map', 'chan', 'func', 'interface') and not self.is_string(tid)

    def is_string(self, tid):
        u = self.U(tid)
        return u['kind'] == 'basic' and u['name'] in ('string', 'untyped string')

    def is_bool(self, tid):
        u = self.U(tid)
        return u['kind'] == 'basic' and u['name'] in ('bool', 'untyped bool')

    def is_float(self, tid):
        u = self.U(tid)
        return u['kind'] == 'basic' and u['name'].startswith(('float', 'untyped float', 'complex'))

    def sort_of(self, tid):
        return BOOL if self.is_bool(tid) else INT

    def elem_key(self, tid):
        """heap key for scalar element type"""
        u = self.T(tid)
        if u['kind'] == 'basic':
            n = u['name']
            return {'byte': 'uint8', 'rune': 'int32'}.get(n, n)
        if u['kind'] == 'named':
            return self.prog.struct_name(tid)
        if u['kind'] == 'pointer':
            return '*' + self.elem_key(u['elem'])
        return self.prog.short(tid)

    def tname(self, tid):
        return self.prog.short(self.prog.struct_name(tid)) if self.T(tid)['kind'] == 'named' else self.prog.short(tid)

    def struct_fields(self, tid):
        u = self.U(tid)
        assert u['kind'] == 'struct', tid
        return u['fields']

    # ------------------------------------------------------------------ heap access
    def heap_get(self, st, name, sort):
        if getattr(self, 'heap_record', None) is not None:
            self.heap_record.add(name)
        h = st.heap.get(name)
        if h is None and name.startswith('OWN:'):
            h = constarr(arr(ARR_IB), constarr(ARR_IB, FALSE))
            st.heap[name] = h
            if self.old is not None and name not in self.old.heap:
                self.old.heap[name] = h
            return h
        if h is None and name.startswith('INIT:'):
            h = constarr(arr(ARR_IB), constarr(ARR_IB, TRUE))
            st.heap[name] = h
            if self.old is not None and name not in self.old.heap:
                self.old.heap[name] = h
            return h
        if h is None:
            if sort is None:
                sort = self.ctx.declared['H0:' + name][1]
            h = self.ctx.declare_const('H0:' + name, sort)
            self.ctx.heap_bound[h.val] = self.alloc0
            st.heap[name] = h
            if self.old is not None and name not in self.old.heap:
                self.old.heap[name] = h
            if name.startswith('INIT:'):
                pass
        return h

    def base_consts(self, h, acc=None):
        if acc is None:
            acc = []
        if h.op == 'const':
            acc.append(h)
        elif h.op == 'store':
            self.base_consts(h.args[0], acc)
        elif h.op == 'ite':
            self.base_consts(h.args[1], acc)
            self.base_consts(h.args[2], acc)
        return acc

    def valid_scalar_heap(self, h, tid, two_level):
        """range axiom for every base constant of heap term h holding values of sized int type tid"""
        rng = self.prog.int_range(tid) if self.kind(tid) == 'basic' else None
        isaddr = self.kind(tid) == 'pointer'
        if not rng and not isaddr:
            return
        if self.opts.get('ground'):
            return
        for b in self.base_consts(h):
            if b.val.startswith('H:'):
                continue        # a named merge of other heaps: its validity follows from theirs
            key = ('valid', b.val)
            if key in self.ctx.assumptions:
                continue
            self.ctx.assumptions.add(key)
            a, k = const('a!', INT), const('k!', INT)
            if two_level:
                v = select(select(b, a), k)
                vs = [a, k]
            else:
                v = select(b, a)
                vs = [a]
            if rng:
                if rng[1] > 2 ** 62:
                    continue
                self.ctx.assume(forall(vs, and_(le(I(rng[0]), v), le(v, I(rng[1]))), [v]))
            else:
                # pointers: nil is 0, allocated objects are positive, sub-objects (fields, elements) have negative addresses
                bound = self.ctx.heap_bound.get(b.val)
                # (only holders that exist at that point are constrained: what an unallocated address "holds" is arbitrary,
                #  which is how the contents of objects allocated by callees are modelled)
                if bound is not None:
                    # (holders: objects that exist at that point; field and element addresses - negative - are left
                    #  out because the object they belong to may be one a callee allocated later)
                    self.ctx.assume(forall(vs, and_(lt(NEGFAR, v), implies(self.existed(a, bound), self.existed_v(v, bound))), [v]))
                else:
                    self.ctx.assume(forall(vs, lt(NEGFAR, v), [v]))

    def valid_header_heaps(self, st, hs, is_slice):
        """hs: dict part->heap term for a slice/string header stored in field heaps"""
        if self.opts.get('ground'):
            return
        bases = {}
        for part, h in hs.items():
            bs = self.base_consts(h)
            if len(bs) != 1 or h.op != 'const':
                return
            if bs[0].val.startswith('H:'):
                return          # a named merge of other heaps: its validity follows from theirs
            bases[part] = bs[0]
        key = ('validhdr',) + tuple(sorted((p, b.val) for p, b in bases.items()))
        if key in self.ctx.assumptions:
            return
        self.ctx.assumptions.add(key)
        p = const('p!', INT)
        g = lambda part: select(bases[part], p)
        if is_slice:
            body = and_(lt(NEGFAR, g('arr')), le(ZERO, g('off')), le(ZERO, g('len')), le(g('len'), g('cap')), le(add(g('off'), g('cap')), I(MAXLEN)),
                        implies(eq(g('arr'), ZERO), eq(g('cap'), ZERO)))
        else:
            body = and_(lt(NEGFAR, g('arr')), le(ZERO, g('off')), le(ZERO, g('len')), le(add(g('off'), g('len')), I(MAXLEN)))
        bound = self.ctx.heap_bound.get(bases['arr'].val)
        if bound is not None:
            body = and_(body, implies(self.existed(p, bound), self.existed_v(g('arr'), bound)))
        self.ctx.assume(forall([p], body, [g('len')]))
        self.ctx.assume(forall([p], body, [g('arr')]))
        if is_slice:
            self.ctx.assume(forall([p], body, [g('cap')]))

    def ground_valid(self, v, tid):
        """bounded mode: type-range fact for one loaded value instead of a quantified heap axiom"""
        if not isinstance(v, T) or v.op in ('int', 'bool') or v.sort != INT:
            return
        key = ('gv', v)
        if key in self.ctx.assumptions:
            return
        rng = self.prog.int_range(tid) if self.kind(tid) == 'basic' else None
        if rng and rng[1] < 2 ** 62 and not self.has_bound_term(v):
            self.ctx.assumptions.add(key)
            self.ctx.assume(and_(le(I(rng[0]), v), le(v, I(rng[1]))))

    def has_bound_term(self, t):
        for x in subterms(t):
            if x.op == 'const' and ('?' in x.val or x.val.endswith('!') and len(x.val) <= 3 or x.val.startswith('$')):
                return True
        return False

    def hs_name(self, etid):
        return 'HS:' + self.elem_key(etid)

    def hs_sort(self, etid):
        return arr(arr(self.sort_of(etid)))

    def range_assume(self, t, tid):
        r = self.prog.int_range(tid) if self.prog.is_intlike(tid) else None
        if r and t.op == 'const':
            self.ctx.assume(and_(le(I(r[0]), t), le(t, I(r[1]))))

    def elem_load(self, st, etid, arr_, absidx, want_init=True):
        """load element of scalar/aggregate type at backing array arr_, absolute index"""
        k = self.kind(etid)
        if self.is_scalar(etid):
            h = self.heap_get(st, self.hs_name(etid), self.hs_sort(etid))
            self.valid_scalar_heap(h, etid, True)
            v = select(select(h, arr_), absidx)
            if self.opts.get('ground'):
                self.ground_valid(v, etid)
            return self.wrap_scalar(v, etid, st)
        # aggregate element: object at elem address
        return self.obj_load(st, etid, self.elemaddr(arr_, absidx))

    def elem_store(self, st, etid, arr_, absidx, v):
        if self.is_scalar(etid):
            name = self.hs_name(etid)
            h = self.heap_get(st, name, self.hs_sort(etid))
            inner = select(h, arr_)
            self.own_check(st, etid, arr_, absidx, add(absidx, ONE))
            st.heap[name] = store(h, arr_, store(inner, absidx, self.scalar_term(v)))
            if self.track_init:
                iname = 'INIT:' + self.elem_key(etid)
                ih = self.heap_get(st, iname, arr(arr(BOOL)))
                st.heap[iname] = store(ih, arr_, store(select(ih, arr_), absidx, TRUE))
            return
        self.obj_store(st, etid, self.elemaddr(arr_, absidx), v)

    def own_check(self, st, etid, arr_, lo, hi, guard=None):
        """memory handed over to a consumer (ghost OWN bits set by an effect) must never be written again"""
        if not getattr(self, 'track_own', False) or not self.is_scalar(etid):
            return
        key = 'OWN:' + self.elem_key(etid)
        if key not in self.own_types:
            return
        oh = self.heap_get(st, key, arr(ARR_IB))
        if hi == add(lo, ONE):
            c = not_(select(select(oh, arr_), lo))
        else:
            n = self.ctx.counter.get('q:ow', 0)
            self.ctx.counter['q:ow'] = n + 1
            k = const('ow?%d' % n, INT)
            c = forall([k], implies(and_(le(lo, k), lt(k, hi)), not_(select(select(oh, arr_), k))), [select(select(oh, arr_), k)])
        if guard is not None:
            c = implies(guard, c)
        self.oblige(st, 'own-write', self.cur_src_detail(), c, {'clause': 'memory already handed to the consumer is not written'}, {'C06'})

    # Address space.  nil = 0; allocated roots are positive; sub-objects (fields, elements) of ordinary objects
    # lie in (-FAR, 0); the storage of *private* package variables (unexported, address never escapes: see
    # Program.private_globals) lies below -FAR.  Every pointer or slice base held in a parameter, a result or a
    # heap cell is above -FAR, so nothing can alias private package storage.
    def addr_range(self, e, far):
        return lt(e, NEGFAR) if far else and_(lt(NEGFAR, e), lt(e, ZERO))

    def existed_v(self, v, bound):
        """an address value that was already around at `bound`: below it, and - for a field or element address -
        inside an object allocated before it"""
        return and_(lt(v, bound), implies(lt(v, ZERO), lt(self.root(v), bound)))

    def existed(self, a, bound):
        """the object that address a lies in was allocated before `bound`"""
        return or_(and_(le(ZERO, a), lt(a, bound)), and_(lt(a, ZERO), lt(self.root(a), bound)))

    def root(self, a):
        """the allocated object an address lies in: itself for object addresses (>= 0), the enclosing object's
        root for field and element addresses"""
        self.ctx.declare_fun('root', (INT,), INT)
        if 'root' not in self.ctx.assumptions:
            self.ctx.assumptions.add('root')
            x = const('x!', INT)
            self.ctx.assume(forall([x], implies(le(ZERO, x), eq(app('root', (x,), INT), x)), [app('root', (x,), INT)]))
        return app('root', (a,), INT)

    def term_is_far(self, a):
        if a.op == 'const':
            return a.val in getattr(self.ctx, 'private_g', ())
        if a.op == 'app':
            return a.val.split('/')[0] == 'gelem' or a.val.startswith('gsub:')
        return False

    def elemaddr(self, a, i, far=None):
        far = self.term_is_far(a)
        fn_ = 'gelem' if far else 'elem'
        self.ctx.declare_fun(fn_, (INT, INT), INT)
        if self.opts.get('ground'):
            r_ = app(fn_, (a, i), INT)
            if ('ge', r_) not in self.ctx.assumptions and not self.has_bound_term(r_):
                self.ctx.assumptions.add(('ge', r_))
                self.ctx.assume(self.addr_range(r_, far))
            return r_
        if fn_ not in self.ctx.assumptions:
            self.ctx.assumptions.add(fn_)
            self.ctx.declare_fun(fn_ + '.a', (INT,), INT)
            self.ctx.declare_fun(fn_ + '.i', (INT,), INT)
            x, y = const('x!', INT), const('y!', INT)
            e = app(fn_, (x, y), INT)
            self.root(ZERO)
            self.ctx.assume(forall([x, y], and_(eq(app(fn_ + '.a', (e,), INT), x), eq(app(fn_ + '.i', (e,), INT), y), self.addr_range(e, far),
                                                eq(app('root', (e,), INT), app('root', (x,), INT))), [e]))
        return app(fn_, (a, i), INT)

    def subaddr(self, stid, fname, p, far=None):
        far = self.term_is_far(p)
        fn_ = '%s:%s.%s' % ('gsub' if far else 'sub', self.tname(stid), fname)
        if self.opts.get('ground'):
            self.ctx.declare_fun(fn_, (INT,), INT)
            r_ = app(fn_, (p,), INT)
            if ('gs', r_) not in self.ctx.assumptions and not self.has_bound_term(r_):
                self.ctx.assumptions.add(('gs', r_))
                self.ctx.assume(self.addr_range(r_, far))
            return r_
        if fn_ not in self.ctx.declared:
            self.ctx.declare_fun(fn_, (INT,), INT)
            self.ctx.declare_fun(fn_ + '~', (INT,), INT)
            x = const('x!', INT)
            e = app(fn_, (x,), INT)
            self.root(ZERO)
            # (addresses of different fields differ: each address function has its own tag)
            self.ctx.declare_fun('atag', (INT,), INT)
            self.ctx.sub_tags = getattr(self.ctx, 'sub_tags', 0) + 1
            self.ctx.assume(forall([x], and_(eq(app(fn_ + '~', (e,), INT), x), self.addr_range(e, far), eq(app('root', (e,), INT), app('root', (x,), INT)),
                                             eq(app('atag', (e,), INT), I(self.ctx.sub_tags))), [e]))
        return app(fn_, (p,), INT)

    def is_far(self, a):
        r = self.addr_root(a)
        return r[0] == 'glob' and isinstance(r[2], T) and r[2].op == 'const' and r[2].val in getattr(self.ctx, 'private_g', ())

    def wrap_scalar(self, term, tid, st=None):
        k = self.kind(tid)
        if k == 'pointer':
            return PtrV(term, self.U(tid)['elem'])
        if k == 'func' and term.op == 'const' and term.val in getattr(self.ctx, 'fn_consts', {}):
            return self.ctx.fn_consts[term.val]      # a function value stored earlier in this very execution
        if k in ('map', 'chan', 'func', 'interface'):
            return Opaque(term, tid)
        if self.is_float(tid):
            return Opaque(term, tid)
        return term

    def scalar_term(self, v):
        if isinstance(v, T):
            return v
        if isinstance(v, PtrV):
            if v.term is None:
                return self.ptr_term(None, v).term
            return v.term
        if isinstance(v, Opaque):
            return v.term
        if isinstance(v, FuncV):
            if v.term is None:
                if v.bindings:
                    v.term = self.ctx.fresh('fn:' + short_fn(v.name), INT)
                else:
                    v.term = self.ctx.declare_const('FN:' + v.name, INT)    # one value per declared function
                self.ctx.assume(lt(ZERO, v.term))
                if not hasattr(self.ctx, 'fn_consts'):
                    self.ctx.fn_consts = {}
                self.ctx.fn_consts[v.term.val] = v
            return v.term
        raise Unsupported('scalar_term of %r' % (v,))

    # small fixed arrays of scalars ([2]int32, [4]uint16, ...) are stored like struct fields: one heap per index,
    # keyed by the array object's address.  They never share a heap with slices of the same element type.
    def small_arr(self, tid):
        if self.kind(tid) != 'array':
            return False
        u = self.U(tid)
        if not (1 <= u['len'] <= 4 and self.is_scalar(u['elem']) and not self.is_string(u['elem'])):
            return False
        return tid not in self.prog.sliced_arrays()

    def sa_heap(self, st, tid, j):
        u = self.U(tid)
        name = 'HA:%s.%d' % (self.tname(tid), j)
        return name, self.heap_get(st, name, arr(self.sort_of(u['elem'])))

    def sa_load(self, st, tid, p, i):
        u = self.U(tid)
        vals = []
        for j in range(u['len']):
            nm, h = self.sa_heap(st, tid, j)
            self.valid_scalar_heap(h, u['elem'], False)
            vals.append(select(h, p))
        if i.is_int():
            return self.wrap_scalar(vals[i.val], u['elem'], st)
        r = vals[-1]
        for j in range(u['len'] - 2, -1, -1):
            r = ite(eq(i, I(j)), vals[j], r)
        return self.wrap_scalar(r, u['elem'], st)

    def sa_store(self, st, tid, p, i, v):
        u = self.U(tid)
        vt = self.scalar_term(v)
        for j in range(u['len']):
            nm, h = self.sa_heap(st, tid, j)
            if i.is_int():
                if i.val == j:
                    st.heap[nm] = store(h, p, vt)
            else:
                st.heap[nm] = store(h, p, ite(eq(i, I(j)), vt, select(h, p)))

    def addr_type(self, a):
        k = a[0]
        if k in ('obj', 'glob'):
            return a[1]
        if k in ('fld', 'idx', 'sel'):
            return a[3]
        return None

    def scan_scalar_targets(self):
        """scalar struct fields whose address is kept as a value in this function (`ptr = &s.f`, passed on, merged):
        pointers of that element type may designate them"""
        fn = self.fn
        fa = {}
        for b in fn.get('blocks') or []:
            for ins in b['instrs']:
                if ins.get('op') == 'FieldAddr' and ins.get('name'):
                    fa[ins['name']] = ins
        if not fa:
            return
        used = set()
        for b in fn.get('blocks') or []:
            for ins in b['instrs']:
                op = ins.get('op')
                vals = []
                if op == 'Store':
                    vals = [ins.get('val')]
                elif op == 'Phi':
                    vals = ins.get('edges') or []
                elif op in ('Call', 'Go', 'Defer'):
                    vals = list(ins['call'].get('args') or [])
                elif op == 'MakeClosure':
                    vals = ins.get('bindings') or []
                elif op == 'Return':
                    vals = ins.get('results') or []
                for v_ in vals:
                    if isinstance(v_, dict) and v_.get('k') == 'reg' and v_.get('n') in fa:
                        used.add(v_['n'])
        for n in used:
            ins = fa[n]
            xt = ins['x'].get('type') or ''
            if not xt.startswith('*'):
                continue
            stid = xt[1:]
            try:
                f = self.struct_fields(stid)[ins['field']]
            except Exception:
                continue
            if self.is_scalar(f['type']) and not self.is_string(f['type']):
                lst = self.scalar_targets.setdefault(self.elem_key(f['type']), [])
                if (stid, f['name'], f['type']) not in lst:
                    lst.append((stid, f['name'], f['type']))

    def field_ptr_parts(self, stid, fname, p):
        """(address of the struct, condition) for a pointer value p that may be &s.fname of a struct of type stid"""
        self.subaddr(stid, fname, ZERO)          # declares the address function and its inverse
        fn_ = 'sub:%s.%s' % (self.tname(stid), fname)
        inv_ = app(fn_ + '~', (p,), INT)
        return inv_, eq(app(fn_, (inv_,), INT), p)

    def field_heap(self, st, stid, path, sort):
        return self.heap_get(st, 'HF:%s.%s' % (self.tname(stid), path), arr(sort))

    def field_load(self, st, stid, p, fname, ftid, path=None):
        """load field fname (type ftid) of struct stid at address p"""
        path = path or fname
        k = self.kind(ftid)
        if self.is_string(ftid):
            hs = dict((s, self.field_heap(st, stid, path + '.' + s, INT)) for s in ('arr', 'off', 'len'))
            self.valid_header_heaps(st, hs, False)
            g = lambda s: select(hs[s], p)
            return StrV(g('arr'), g('off'), g('len'))
        if self.is_scalar(ftid):
            h = self.field_heap(st, stid, path, self.sort_of(ftid))
            self.valid_scalar_heap(h, ftid, False)
            v = select(h, p)
            if self.opts.get('ground'):
                self.ground_valid(v, ftid)
            return self.wrap_scalar(v, ftid, st)
        if k == 'slice':
            hs = dict((s, self.field_heap(st, stid, path + '.' + s, INT)) for s in ('arr', 'off', 'len', 'cap'))
            self.valid_header_heaps(st, hs, True)
            g = lambda s: select(hs[s], p)
            return SliceV(g('arr'), g('off'), g('len'), g('cap'), self.U(ftid)['elem'])
        if k == 'struct':
            return self.obj_load(st, ftid, self.subaddr(stid, path, p))
        if k == 'array':
            return self.obj_load(st, ftid, self.subaddr(stid, path, p))
        raise Unsupported('field_load kind %s' % k)

    def field_store(self, st, stid, p, fname, ftid, v, path=None):
        path = path or fname
        k = self.kind(ftid)

        def put(sub, sort, val):
            name = 'HF:%s.%s' % (self.tname(stid), sub)
            h = self.heap_get(st, name, arr(sort))
            st.heap[name] = store(h, p, val)
        if self.is_string(ftid):
            put(path + '.arr', INT, v.arr)
            put(path + '.off', INT, v.off)
            put(path + '.len', INT, v.len)
        elif self.is_scalar(ftid):
            put(path, self.sort_of(ftid), self.scalar_term(v))
        elif k == 'slice':
            put(path + '.arr', INT, v.arr)
            put(path + '.off', INT, v.off)
            put(path + '.len', INT, v.len)
            put(path + '.cap', INT, v.cap)
        elif k in ('struct', 'array'):
            self.obj_store(st, ftid, self.subaddr(stid, path, p), v)
        else:
            raise Unsupported('field_store kind %s' % k)

    def obj_load(self, st, tid, p):
        """load a whole object of type tid stored at address p"""
        k = self.kind(tid)
        if self.is_string(tid):
            hs = dict((s, self.heap_get(st, 'HF:string.' + s, ARR_II)) for s in ('arr', 'off', 'len'))
            self.valid_header_heaps(st, hs, False)
            g = lambda s: select(hs[s], p)
            return StrV(g('arr'), g('off'), g('len'))
        if self.is_scalar(tid):
            h = self.heap_get(st, 'HB:' + self.elem_key(tid), arr(self.sort_of(tid)))
            self.valid_scalar_heap(h, tid, False)
            v_ = select(h, p)
            # the pointer may be the address of a scalar struct field that was taken in this function (&s.f)
            for stid_, fname_, ftid_ in self.scalar_targets.get(self.elem_key(tid), ()):
                inv_, cond_ = self.field_ptr_parts(stid_, fname_, p)
                fh_ = self.field_heap(st, stid_, fname_, self.sort_of(ftid_))
                self.valid_scalar_heap(fh_, ftid_, False)
                v_ = ite(cond_, select(fh_, inv_), v_)
            return self.wrap_scalar(v_, tid, st)
        if k == 'slice':
            nm = 'HF:' + self.prog.short(tid) + '.'
            hs = dict((s, self.heap_get(st, nm + s, ARR_II)) for s in ('arr', 'off', 'len', 'cap'))
            self.valid_header_heaps(st, hs, True)
            g = lambda s: select(hs[s], p)
            return SliceV(g('arr'), g('off'), g('len'), g('cap'), self.U(tid)['elem'])
        if k == 'struct':
            return StructV(tid, dict((f['name'], self.field_load(st, tid, p, f['name'], f['type'])) for f in self.struct_fields(tid)))
        if k == 'array':
            u = self.U(tid)
            if self.small_arr(tid):
                return ArrV(tid, [self.sa_load(st, tid, p, I(i)) for i in range(u['len'])], u['elem'])
            if u['len'] > 16:
                return ArrRef(tid, p, st.copy())
            return ArrV(tid, [self.elem_load(st, u['elem'], p, I(i)) for i in range(u['len'])], u['elem'])
        raise Unsupported('obj_load kind %s' % k)

    def obj_store(self, st, tid, p, v):
        k = self.kind(tid)

        def put(name, sort, val):
            h = self.heap_get(st, name, arr(sort))
            st.heap[name] = store(h, p, val)
        if self.is_string(tid):
            put('HF:string.arr', INT, v.arr)
            put('HF:string.off', INT, v.off)
            put('HF:string.len', INT, v.len)
        elif self.is_scalar(tid):
            val_ = self.scalar_term(v)
            conds_ = []
            for stid_, fname_, ftid_ in self.scalar_targets.get(self.elem_key(tid), ()):
                inv_, cond_ = self.field_ptr_parts(stid_, fname_, p)
                nm_ = 'HF:%s.%s' % (self.tname(stid_), fname_)
                fh_ = self.heap_get(st, nm_, arr(self.sort_of(ftid_)))
                st.heap[nm_] = store(fh_, inv_, ite(cond_, val_, select(fh_, inv_)))
                conds_.append(cond_)
            if conds_:
                hb_ = self.heap_get(st, 'HB:' + self.elem_key(tid), arr(self.sort_of(tid)))
                st.heap['HB:' + self.elem_key(tid)] = store(hb_, p, ite(or_(*conds_), select(hb_, p), val_))
            else:
                put('HB:' + self.elem_key(tid), self.sort_of(tid), val_)
        elif k == 'slice':
            nm = 'HF:' + self.prog.short(tid) + '.'
            put(nm + 'arr', INT, v.arr)
            put(nm + 'off', INT, v.off)
            put(nm + 'len', INT, v.len)
            put(nm + 'cap', INT, v.cap)
        elif k == 'struct':
            for f in self.struct_fields(tid):
                self.field_store(st, tid, p, f['name'], f['type'], v.f[f['name']])
        elif k == 'array' and isinstance(v, ArrRef):
            # copy of a large array: the destination elements are havocked and stated equal, leaf by leaf, to the
            # source elements of the state in which the value was read
            u = self.U(tid)
            e_ = u['elem']
            n_ = I(u['len'])
            if self.is_scalar(e_):
                raise Unsupported('whole-array copy of scalars %s' % tid)
            self.havoc_regions(st, [('objs', e_, p, ZERO, n_)], 'arrcopy')
            from .speceval import SpecEval
            ev_ = SpecEval(self, st, {}, None, 'array copy')
            nq_ = self.ctx.counter.get('q:ac', 0)
            self.ctx.counter['q:ac'] = nq_ + 1
            kq_ = const('ac?%d' % nq_, INT)
            newv_ = self.obj_load(st, e_, self.elemaddr(p, kq_))
            oldv_ = self.obj_load(v.pre, e_, self.elemaddr(v.addr, kq_))
            self.ctx.assume(forall([kq_], implies(and_(le(ZERO, kq_), lt(kq_, n_)), ev_.ident_eq(newv_, oldv_)), [self.elemaddr(p, kq_)]))
        elif k == 'array':
            u = self.U(tid)
            for i, e in enumerate(v.elems):
                if self.small_arr(tid):
                    self.sa_store(st, tid, p, I(i), e)
                else:
                    self.elem_store(st, u['elem'], p, I(i), e)
        else:
            raise Unsupported('obj_store kind %s' % k)

    # ------------------------------------------------------------------ values
    def zero(self, tid):
        k = self.kind(tid)
        if self.is_string(tid):
            return StrV(ZERO, ZERO, ZERO, b'')
        if self.is_bool(tid):
            return FALSE
        if k == 'basic':
            if self.is_float(tid):
                return Opaque(ZERO, tid)
            return ZERO
        if k == 'pointer':
            return PtrV(ZERO, self.U(tid)['elem'])
        if k in ('map', 'chan', 'func', 'interface'):
            return Opaque(ZERO, tid)
        if k == 'slice':
            return SliceV(ZERO, ZERO, ZERO, ZERO, self.U(tid)['elem'])
        if k == 'struct':
            return StructV(tid, dict((f['name'], self.zero(f['type'])) for f in self.struct_fields(tid)))
        if k == 'array':
            u = self.U(tid)
            if u['len'] > 64:
                raise Unsupported('zero value of large array %s' % tid)
            return ArrV(tid, [self.zero(u['elem']) for _ in range(u['len'])], u['elem'])
        if k == 'tuple':
            return TupleV([self.zero(e) for e in self.U(tid)['elems']])
        raise Unsupported('zero of kind %s' % k)

    def fresh_value(self, prefix, tid, valid=True, bound='entry'):
        """bound: upper bound for addresses held by the value ('entry' = alloc0, a term, or None)"""
        bound_t = self.alloc0 if bound == 'entry' else bound
        """arbitrary value of type tid (with Go type validity assumed)"""
        c = self.ctx
        k = self.kind(tid)
        if self.is_string(tid):
            a, o, l = c.fresh(prefix + '.arr', INT), c.fresh(prefix + '.off', INT), c.fresh(prefix + '.len', INT)
            if valid:
                c.assume(and_(lt(NEGFAR, a), le(ZERO, o), le(ZERO, l), le(add(o, l), I(MAXLEN))))
                if bound_t is not None:
                    c.assume(self.existed_v(a, bound_t))
            return StrV(a, o, l)
        if self.is_bool(tid):
            return c.fresh(prefix, BOOL)
        if k == 'basic':
            t = c.fresh(prefix, INT)
            if self.is_float(tid):
                return Opaque(t, tid)
            r = self.prog.int_range(tid)
            if r and valid:
                c.assume(and_(le(I(r[0]), t), le(t, I(r[1]))))
            return t
        if k == 'pointer':
            t = c.fresh(prefix, INT)
            if valid:
                c.assume(lt(NEGFAR, t))
                if bound_t is not None:
                    c.assume(self.existed_v(t, bound_t))
            return PtrV(t, self.U(tid)['elem'])
        if k in ('map', 'chan', 'func', 'interface'):
            t = c.fresh(prefix, INT)
            if valid:
                c.assume(le(ZERO, t))
                if bound_t is not None and k in ('map', 'chan'):
                    c.assume(lt(t, bound_t))
            return Opaque(t, tid)
        if k == 'slice':
            a, o, l, cp = [c.fresh(prefix + s, INT) for s in ('.arr', '.off', '.len', '.cap')]
            if valid:
                c.assume(and_(lt(NEGFAR, a), le(ZERO, o), le(ZERO, l), le(l, cp), le(add(o, cp), I(MAXLEN))))
                c.assume(implies(eq(a, ZERO), eq(cp, ZERO)))
                if bound_t is not None:
                    c.assume(self.existed_v(a, bound_t))
            return SliceV(a, o, l, cp, self.U(tid)['elem'])
        if k == 'struct':
            return StructV(tid, dict((f['name'], self.fresh_value(prefix + '.' + f['name'], f['type'], valid, bound)) for f in self.struct_fields(tid)))
        if k == 'array':
            u = self.U(tid)
            if u['len'] > 64:
                raise Unsupported('fresh value of large array %s' % tid)
            return ArrV(tid, [self.fresh_value('%s.%d' % (prefix, i), u['elem'], valid, bound) for i in range(u['len'])], u['elem'])
        if k == 'tuple':
            return TupleV([self.fresh_value('%s.%d' % (prefix, i), e, valid, bound) for i, e in enumerate(self.U(tid)['elems'])])
        raise Unsupported('fresh_value kind %s' % k)

    def assume_valid(self, v, tid):
        """Go type validity of a value loaded from the heap"""
        c = self.ctx
        if isinstance(v, T):
            if v.sort == INT and v.op != 'int':
                r = self.prog.int_range(tid) if self.kind(tid) == 'basic' else None
                if r:
                    c.assume(and_(le(I(r[0]), v), le(v, I(r[1]))))
        elif isinstance(v, SliceV):
            c.assume(and_(lt(NEGFAR, v.arr), le(ZERO, v.off), le(ZERO, v.len), le(v.len, v.cap), le(add(v.off, v.cap), I(MAXLEN)),
                          implies(eq(v.arr, ZERO), eq(v.cap, ZERO))))
        elif isinstance(v, StrV):
            c.assume(and_(lt(NEGFAR, v.arr), le(ZERO, v.off), le(ZERO, v.len), le(add(v.off, v.len), I(MAXLEN))))
        elif isinstance(v, PtrV):
            if v.term is not None:
                c.assume(lt(NEGFAR, v.term))
        elif isinstance(v, StructV):
            for f in self.struct_fields(v.tid):
                self.assume_valid(v.f[f['name']], f['type'])
        elif isinstance(v, ArrV):
            for e in v.elems:
                self.assume_valid(e, v.elem)

    def named(self, prefix, v):
        """name every scalar component of v"""
        c = self.ctx
        if isinstance(v, T):
            return c.name(prefix, v)
        if isinstance(v, SliceV):
            return SliceV(c.name(prefix + '.arr', v.arr), c.name(prefix + '.off', v.off), c.name(prefix + '.len', v.len), c.name(prefix + '.cap', v.cap), v.elem)
        if isinstance(v, StrV):
            return StrV(c.name(prefix + '.arr', v.arr), c.name(prefix + '.off', v.off), c.name(prefix + '.len', v.len), v.lit)
        if isinstance(v, PtrV):
            if v.term is None:
                return v
            return PtrV(c.name(prefix, v.term), v.elem, v.addr)
        if isinstance(v, Opaque):
            return Opaque(c.name(prefix, v.term), v.tid, v.info)
        if isinstance(v, StructV):
            return StructV(v.tid, dict((k, self.named(prefix + '.' + k, x)) for k, x in v.f.items()))
        if isinstance(v, ArrV):
            return ArrV(v.tid, [self.named('%s.%d' % (prefix, i), x) for i, x in enumerate(v.elems)], v.elem)
        if isinstance(v, TupleV):
            return TupleV([self.named('%s.%d' % (prefix, i), x) for i, x in enumerate(v.elems)])
        return v

    def merge_values(self, conds, vals, prefix='m'):
        """conds[i] guards vals[i]; last is default"""
        first = vals[0]
        if all(v is first for v in vals):
            return first
        if isinstance(first, T):
            if all(v == first for v in vals):
                return first
            r = vals[-1]
            for c_, v in zip(reversed(conds[:-1]), reversed(vals[:-1])):
                r = ite(c_, v, r)
            return self.ctx.name(prefix, r)
        if isinstance(first, SliceV):
            return SliceV(*[self.merge_values(conds, [getattr(v, a) for v in vals], prefix) for a in ('arr', 'off', 'len', 'cap')], elem=first.elem)
        if isinstance(first, StrV):
            return StrV(*[self.merge_values(conds, [getattr(v, a) for v in vals], prefix) for a in ('arr', 'off', 'len')])
        if isinstance(first, PtrV):
            if all(v.term is None for v in vals):
                if all(v.addr == first.addr for v in vals):
                    return first
                raise Unsupported('merge of distinct local addresses')
            return PtrV(self.merge_values(conds, [self.scalar_term(v) for v in vals], prefix), first.elem)
        if isinstance(first, Opaque):
            return Opaque(self.merge_values(conds, [self.scalar_term(v) for v in vals], prefix), first.tid)
        if isinstance(first, FuncV):
            if all(isinstance(v, FuncV) and v.name == first.name for v in vals):
                return first
            return Opaque(self.merge_values(conds, [self.scalar_term(v) for v in vals], prefix), None)
        if isinstance(first, StructV):
            return StructV(first.tid, dict((k, self.merge_values(conds, [v.f[k] for v in vals], prefix)) for k in first.f))
        if isinstance(first, ArrV):
            return ArrV(first.tid, [self.merge_values(conds, [v.elems[i] for v in vals], prefix) for i in range(len(first.elems))], first.elem)
        if isinstance(first, TupleV):
            return TupleV([self.merge_values(conds, [v.elems[i] for v in vals], prefix) for i in range(len(first.elems))])
        if first is None:
            return None
        raise Unsupported('merge of %r' % (first,))

    # ------------------------------------------------------------------ obligations
    def oblige(self, st, kind, detail, cond, info=None, props=None):
        return self.ctx.oblige(kind, detail, st.pc, cond, self.cur_line, info, props)

    # ------------------------------------------------------------------ addresses
    def resolve_ptr(self, st, v, what='deref'):
        """PtrV -> python-level address; emits nil-check for term pointers"""
        if not isinstance(v, PtrV):
            raise Unsupported('deref of non-pointer %r' % (v,))
        if v.addr is not None:
            return v.addr
        self.oblige(st, 'nil', what, ne(v.term, ZERO))
        return ('obj', v.elem, v.term)

    def addr_root(self, a):
        while a[0] in ('fld', 'idx'):
            a = a[1]
        return a

    def load(self, st, a):
        k = a[0]
        if k == 'cell':
            return st.cells[a[1]]
        if k == 'obj':
            v = self.obj_load(st, a[1], a[2])
            return v
        if k == 'glob':
            return self.obj_load(st, a[1], a[2])
        if k == 'fld':
            _, base, fname, ftid, stid = a
            r = self.addr_root(base)
            if r[0] == 'cell':
                bv = self.load(st, base)
                return bv.f[fname]
            p = self.addr_term(st, base)
            return self.field_load(st, stid, p, fname, ftid)
        if k == 'idx':
            _, base, i, etid = a
            r = self.addr_root(base)
            if r[0] == 'cell':
                bv = self.load(st, base)
                return self.arr_select(bv, i)
            p = self.addr_term(st, base)
            at_ = self.addr_type(base)
            if at_ is not None and self.small_arr(at_):
                return self.sa_load(st, at_, p, i)
            return self.elem_load_checked(st, etid, p, i)
        if k == 'sel':
            _, sl, i, etid = a
            return self.elem_load_checked(st, etid, sl.arr, add(sl.off, i))
        raise Unsupported('load %r' % (a,))

    def elem_load_checked(self, st, etid, arr_, absidx):
        if self.track_init and not getattr(self, 'in_spec', 0) and self.is_scalar(etid) and ('INIT:' + self.elem_key(etid)) in self.init_types:
            ih = self.heap_get(st, 'INIT:' + self.elem_key(etid), arr(arr(BOOL)))
            self.oblige(st, 'init-read', self.cur_src_detail(), select(select(ih, arr_), absidx), props={'C05'})
        return self.elem_load(st, etid, arr_, absidx)

    def arr_select(self, av, i):
        if i.is_int():
            return av.elems[i.val]
        n = len(av.elems)
        return self.merge_values([eq(i, I(j)) for j in range(n)], av.elems, 'asel')

    def arr_update(self, av, i, v):
        if i.is_int():
            es = list(av.elems)
            es[i.val] = v
            return ArrV(av.tid, es, av.elem)
        es = [self.merge_values([eq(i, I(j)), TRUE], [v, e], 'aupd') for j, e in enumerate(av.elems)]
        return ArrV(av.tid, es, av.elem)

    def addr_term(self, st, a):
        """Int address of an aggregate object denoted by python address a (heap-rooted)"""
        k = a[0]
        if k in ('obj', 'glob'):
            return a[2]
        if k == 'fld':
            _, base, fname, ftid, stid = a
            return self.subaddr(stid, fname, self.addr_term(st, base), self.is_far(base))
        if k == 'idx':
            _, base, i, etid = a
            return self.elemaddr(self.addr_term(st, base), i, self.is_far(base))
        if k == 'sel':
            _, sl, i, etid = a
            return self.elemaddr(sl.arr, add(sl.off, i))
        raise Unsupported('addr_term %r' % (a,))

    def store(self, st, a, v):
        k = a[0]
        if k == 'cell':
            st.cells[a[1]] = v
            return
        if k in ('obj', 'glob'):
            self.frame_check_obj(st, a[2], a[1])
            self.obj_store(st, a[1], a[2], v)
            return
        if k == 'fld':
            _, base, fname, ftid, stid = a
            r = self.addr_root(base)
            if r[0] == 'cell':
                bv = self.load(st, base)
                nf = dict(bv.f)
                nf[fname] = v
                self.store(st, base, StructV(bv.tid, nf))
                return
            p = self.addr_term(st, base)
            self.frame_check_obj(st, p, stid, fname)
            self.field_store(st, stid, p, fname, ftid, v)
            return
        if k == 'idx':
            _, base, i, etid = a
            r = self.addr_root(base)
            if r[0] == 'cell':
                bv = self.load(st, base)
                self.store(st, base, self.arr_update(bv, i, v))
                return
            p = self.addr_term(st, base)
            at_ = self.addr_type(base)
            if at_ is not None and self.small_arr(at_):
                self.frame_check_obj(st, p, at_)
                self.sa_store(st, at_, p, i, v)
                return
            if self.is_scalar(etid):
                self.frame_check_elem(st, etid, p, i)
            else:
                self.frame_check_obj(st, self.elemaddr(p, i), etid)
            self.elem_store(st, etid, p, i, v)
            return
        if k == 'sel':
            _, sl, i, etid = a
            if self.is_scalar(etid):
                self.frame_check_elem(st, etid, sl.arr, add(sl.off, i))
            else:
                self.frame_check_obj(st, self.elemaddr(sl.arr, add(sl.off, i)), etid)
            self.elem_store(st, etid, sl.arr, add(sl.off, i), v)
            return
        raise Unsupported('store %r' % (a,))

    # ------------------------------------------------------------------ aggregates: leaf heaps
    def leaf_heaps(self, tid, via=()):
        """[(heap name, sort, two_level, via)] for every scalar leaf of an object of type tid; via = chain of
        (struct tid, field) sub-object steps from the object's own address"""
        k = self.kind(tid)
        out = []
        if self.is_string(tid):
            for s in ('arr', 'off', 'len'):
                out.append(('HF:string.' + s, ARR_II, False, via))
        elif self.is_scalar(tid):
            out.append(('HB:' + self.elem_key(tid), arr(self.sort_of(tid)), False, via))
        elif k == 'slice':
            for s in ('arr', 'off', 'len', 'cap'):
                out.append(('HF:' + self.prog.short(tid) + '.' + s, ARR_II, False, via))
        elif k == 'array':
            e = self.U(tid)['elem']
            if self.small_arr(tid):
                for j in range(self.U(tid)['len']):
                    out.append(('HA:%s.%d' % (self.tname(tid), j), arr(self.sort_of(e)), False, via))
            elif self.is_scalar(e):
                out.append((self.hs_name(e), self.hs_sort(e), True, via))
            else:
                raise Unsupported('array of aggregates inside an aggregate element (%s)' % tid)
        elif k == 'struct':
            for f in self.struct_fields(tid):
                ft = f['type']
                fk = self.kind(ft)
                if self.is_string(ft):
                    for s in ('arr', 'off', 'len'):
                        out.append(('HF:%s.%s.%s' % (self.tname(tid), f['name'], s), ARR_II, False, via))
                elif self.is_scalar(ft):
                    out.append(('HF:%s.%s' % (self.tname(tid), f['name']), arr(self.sort_of(ft)), False, via))
                elif fk == 'slice':
                    for s in ('arr', 'off', 'len', 'cap'):
                        out.append(('HF:%s.%s.%s' % (self.tname(tid), f['name'], s), ARR_II, False, via))
                elif fk in ('struct', 'array'):
                    out += self.leaf_heaps(ft, via + ((tid, f['name']),))
                else:
                    raise Unsupported('leaf_heaps field kind %s' % fk)
        else:
            raise Unsupported('leaf_heaps kind %s' % k)
        return out

    def via_addr(self, via, p):
        for stid, fname in via:
            p = self.subaddr(stid, fname, p)
        return p

    def via_inverse(self, via, a):
        """(candidate object address, condition that a really is via(p))"""
        p = a
        for stid, fname in reversed(via):
            self.subaddr(stid, fname, ZERO)          # make sure the functions are declared
            p = app('sub:%s.%s~' % (self.tname(stid), fname), (p,), INT)
        return p, eq(self.via_addr(via, p), a)

    def in_objs(self, r, p):
        """p is one of the element objects elem(arr, k), lo <= k < hi, of region r = ('objs', tid, arr, lo, hi)"""
        self.elemaddr(ZERO, ZERO)
        ki = app('elem.i', (p,), INT)
        return and_(eq(app('elem.a', (p,), INT), r[2]), le(r[3], ki), lt(ki, r[4]), eq(p, app('elem', (r[2], ki), INT)))

    # ------------------------------------------------------------------ frames
    def region_contains_elem(self, regions, ekey, a, i):
        """regions: list of ('slice', ekey, arr, lo, hi) | ('obj', tname, addr, field|None) | ('fresh', alloc0)"""
        ds = []
        for r in regions:
            if r[0] == 'slice' and r[1] == ekey:
                ds.append(and_(eq(a, r[2]), le(r[3], i), lt(i, r[4])))
            elif r[0] == 'fresh':
                ds.append(ge(self.root_of(a), r[1]))
            elif r[0] == 'any':
                return TRUE
            elif r[0] == 'objs':
                for hn, srt, two, via in self.leaf_heaps(r[1]):
                    if two and hn == 'HS:' + ekey:
                        p, ok = self.via_inverse(via, a)
                        ds.append(and_(ok, self.in_objs(r, p)))
        return or_(*ds)

    def region_contains_obj(self, regions, tname, p, fname=None):
        ds = []
        for r in regions:
            if r[0] == 'obj' and r[1] == tname and (r[3] is None or fname is None or r[3] == fname):
                ds.append(eq(p, r[2]))
            elif r[0] == 'fresh':
                rp_ = self.root_of(p)
                ds.append(ge(rp_, r[1]))
                if not (rp_.op == 'const' and rp_.val.startswith(('p:', 'alloc'))):
                    # a field / element address held in a pointer variable: fresh if the object it lies in is
                    ds.append(and_(lt(rp_, ZERO), ge(self.root(rp_), r[1])))
            elif r[0] == 'any':
                return TRUE
            elif r[0] == 'objs':
                # p is an element object itself or one of its struct sub-objects
                for hn, srt, two, via in [('', None, False, ())] + self.leaf_heaps(r[1]):
                    if two:
                        continue
                    q, ok = self.via_inverse(via, p)
                    ds.append(and_(ok, self.in_objs(r, q)))
        return or_(*ds)

    def root_of(self, a):
        """root object address of a (possibly derived) address term"""
        while a.op == 'app' and (a.val == 'elem' or a.val.startswith('sub:')):
            a = a.args[0]
        return a

    def frame_check_elem(self, st, etid, a, i):
        ekey = self.elem_key(etid)
        if self.writable is not None:
            c = self.region_contains_elem(self.writable, ekey, a, i)
            self.oblige(st, 'frame', self.cur_src_detail(), c)
        for regs in self.loop_writes:
            if regs is not None:
                c = self.region_contains_elem(regs, ekey, a, i)
                self.oblige(st, 'loopframe', self.cur_src_detail(), c)

    def frame_check_obj(self, st, p, tid, fname=None):
        tn = self.tname(tid)
        if self.writable is not None:
            c = self.region_contains_obj(self.writable, tn, p, fname)
            self.oblige(st, 'frame', self.cur_src_detail(), c)
        for regs in self.loop_writes:
            if regs is not None:
                c = self.region_contains_obj(regs, tn, p, fname)
                self.oblige(st, 'loopframe', self.cur_src_detail(), c)

    def cur_src_detail(self):
        return 'L%d' % self.cur_line if self.opts.get('line_names') else self.cur_detail

    def havoc_regions(self, st, regions, tag='hv'):
        """Replace every heap that a region may touch by a fresh one equal outside the regions."""
        c = self.ctx
        by_heap = {}
        anything = False
        for r in regions:
            if r[0] == 'initbits':
                self.heap_get(st, 'INIT:' + r[1], arr(ARR_IB))
                by_heap.setdefault('INIT:' + r[1], []).append(r)
            elif r[0] == 'slice':
                by_heap.setdefault('HS:' + r[1], []).append(r)
                if self.track_init and ('INIT:' + r[1]) in st.heap:
                    by_heap.setdefault('INIT:' + r[1], []).append(r)
            elif r[0] == 'obj':
                pref = 'HF:%s.' % r[1]
                for name in list(st.heap):
                    if name.startswith(pref) and (r[3] is None or name[len(pref):] == r[3] or name[len(pref):].startswith(r[3] + '.')):
                        by_heap.setdefault(name, []).append(r)
                    elif name.startswith('HA:%s.' % r[1]):
                        by_heap.setdefault(name, []).append(r)
                if ('HB:' + r[1]) in st.heap:
                    by_heap.setdefault('HB:' + r[1], []).append(r)
            elif r[0] == 'objs':
                for hn, srt, two, via in self.leaf_heaps(r[1]):
                    self.heap_get(st, hn, srt)
                    by_heap.setdefault(hn, []).append(('objsleaf', r, two, via))
            elif r[0] == 'map':
                for name in list(st.heap):
                    if name.startswith(('MAPV:', 'MAPH:')) or name == 'MAPN':
                        by_heap.setdefault(name, []).append(r)
            elif r[0] == 'any':
                anything = True
        if anything:
            for name in list(st.heap):
                old = st.heap[name]
                st.heap[name] = c.fresh(tag + ':' + name, old.sort)
                c.heap_bound[st.heap[name].val] = st.alloc
            return
        for name, rs in by_heap.items():
            old = self.heap_get(st, name, None) if name in st.heap else None
            if old is None:
                continue
            new = c.fresh(tag + ':' + name, old.sort)
            st.heap[name] = new
            c.heap_bound[new.val] = st.alloc
            if any(r[0] == 'map' for r in rs):
                a = const('a!', INT)
                c.assume(forall([a], implies(and_(*[ne(a, r[1]) for r in rs if r[0] == 'map']), eq(select(new, a), select(old, a))), [select(new, a)]))
                continue
            if any(r[0] == 'objsleaf' for r in rs):
                a = const('a!', INT)
                member = []
                for r in rs:
                    if r[0] == 'objsleaf':
                        q, ok = self.via_inverse(r[3], a)
                        member.append(and_(ok, self.in_objs(r[1], q)))
                    elif r[0] == 'slice':
                        member.append(eq(a, r[2]))
                    elif r[0] == 'obj':
                        member.append(eq(a, r[2]))
                c.assume(forall([a], implies(not_(or_(*member)), eq(select(new, a), select(old, a))), [select(new, a)]))
                continue
            if name.startswith(('HS:', 'INIT:')):
                a, k = const('a!', INT), const('k!', INT)
                # arrays not touched by any region are equal as a whole (no extensionality reasoning needed later)
                c.assume(forall([a], implies(and_(*[ne(a, r[2]) for r in rs]), eq(select(new, a), select(old, a))), [select(new, a)]))
                done_arr = set()
                for r in rs:
                    if r[2] in done_arr:
                        continue
                    done_arr.add(r[2])
                    same = [q for q in rs if q[2] == r[2]]
                    others = [q for q in rs if q[2] != r[2]]
                    inreg = or_(*([and_(le(q[3], k), lt(k, q[4])) for q in same] + [and_(eq(r[2], q[2]), le(q[3], k), lt(k, q[4])) for q in others]))
                    body = implies(not_(inreg), eq(select(select(new, r[2]), k), select(select(old, r[2]), k)))
                    c.assume(forall([k], body, [select(select(new, r[2]), k)]))
            else:
                p = const('p!', INT)
                inreg = or_(*[eq(p, r[2]) for r in rs])
                c.assume(forall([p], implies(not_(inreg), eq(select(new, p), select(old, p))), [select(new, p)]))

    # ------------------------------------------------------------------ allocation
    def new_addr(self, st, prefix='new'):
        # the new object lies at or above the allocation counter (not exactly at it: allocations made on
        # different paths from the same counter must stay unrelated, because facts about the initial contents
        # of fresh memory are stated without a path condition)
        a = self.ctx.fresh(prefix, INT)
        self.ctx.assume(le(st.alloc, a))
        st.alloc = self.ctx.name('alloc', add(a, ONE))
        if getattr(self, 'track_own', False):
            # nothing in freshly allocated memory has been handed to a consumer yet
            for key in self.own_types:
                oh = self.heap_get(st, key, arr(ARR_IB))
                self.ctx.assume(eq(select(oh, a), constarr(ARR_IB, FALSE)))
        return a

    # ------------------------------------------------------------------ value access by SSA operand
    def val(self, st, v):
        k = v['k']
        if k == 'reg':
            try:
                return st.regs[v['n']]
            except KeyError:
                raise Unsupported('register %s undefined on this path' % v['n'])
        if k == 'const':
            return self.const_val(st, v)
        if k == 'param':
            return st.regs['param:' + v['n']]
        if k == 'freevar':
            return st.regs['free:' + v['n']]
        if k == 'global':
            gt = self.prog.globals[v['n']]['type'] if v['n'] in self.prog.globals else self.U(v['type'])['elem']
            g = self.ctx.declare_const('G:' + self.prog.short(v['n']), INT)
            if ('G', v['n']) not in self.ctx.assumptions:
                self.ctx.assumptions.add(('G', v['n']))
                if v['n'] in self.prog.private_globals():
                    if not hasattr(self.ctx, 'private_g'):
                        self.ctx.private_g = set()
                    self.ctx.private_g.add(g.val)
                    self.ctx.assume(lt(g, NEGFAR))
                    # a package variable has been there from the start: it counts as existing at every allocation bound
                    self.ctx.assume(eq(self.root(g), ZERO))
                else:
                    self.ctx.assume(gt_(g))
                    if self.alloc0 is not None:
                        self.ctx.assume(lt(g, self.alloc0))
            return PtrV(g, gt, ('glob', gt, g))
        if k == 'func':
            return FuncV(v['n'])
        if k == 'builtin':
            return FuncV('builtin:' + v['n'])
        raise Unsupported('operand kind %s' % k)

    def const_val(self, st, v):
        tid = v['type']
        if v.get('nil'):
            return self.zero(tid)
        if self.is_string(tid):
            return self.string_lit(bytes(bytearray(v.get('bytes') or [])))
        if self.is_bool(tid):
            return B(v['v'])
        if v.get('float') or self.is_float(tid):
            name = 'flt:' + str(v['v'])
            return Opaque(self.ctx.declare_const(name, INT), tid)
        return I(int(v['v']))

    def string_lit(self, bs):
        """string literal: a distinct immutable backing array with known bytes"""
        key = 'S:' + bs.hex()[:40] + ('_%d' % len(bs))
        a = self.ctx.declare_const(key, INT)
        if key not in self.ctx.assumptions:
            self.ctx.assumptions.add(key)
            self.ctx.strlits = getattr(self.ctx, 'strlits', {})
            self.ctx.strlits[key] = bs
            self.ctx.assume(lt(ZERO, a))
            if self.alloc0 is not None:
                self.ctx.assume(lt(a, self.alloc0))
        return StrV(a, ZERO, I(len(bs)), bs)

    def strlit_bytes_fact(self, st, sv):
        """assume the bytes of a literal (the u8 heap at that array never changes: literals are read-only)"""
        if sv.lit is None or not sv.arr.op == 'const':
            return
        h = self.heap_get(st, 'HS:uint8', arr(ARR_II))
        key = ('lit', sv.arr.val, id(h) if False else smt(h))
        if key in self.ctx.assumptions:
            return
        self.ctx.assumptions.add(key)
        inner = select(h, sv.arr)
        for i, b in enumerate(sv.lit[:64]):
            self.ctx.assume(eq(select(inner, I(i)), I(b)))


def gt_(g):
    return lt(ZERO, g)
