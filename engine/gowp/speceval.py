"""Evaluation of contract expressions (Go syntax AST from spec.py) to symbolic values."""
from .term import *
from .values import *
import re
from .spec import SpecError

CONVS = {'int', 'int8', 'int16', 'int32', 'int64', 'uint', 'uint8', 'uint16', 'uint32', 'uint64', 'byte', 'rune', 'uintptr'}


class SpecEval(object):
    def __init__(self, ex, st, env, old=None, what=''):
        self.ex = ex            # Exec
        self.st = st
        self.env = env          # name -> Value or ('lazy', fn)
        self.old = old          # State for old(...)
        self.what = what
        self.bound = {}
        self.no_expand = False

    # -- helpers
    def lookup(self, name):
        if name in self.bound:
            return self.bound[name]
        if name in self.env:
            v = self.env[name]
            if isinstance(v, tuple) and v and v[0] == 'lazy':
                return v[1](self.st)
            return v
        if name == 'true':
            return TRUE
        if name == 'false':
            return FALSE
        if name == 'nil':
            return ('nil',)
        c = self.ex.lookup_const(name)
        if c is not None:
            return c
        g = self.ex.lookup_global(self.st, name)
        if g is not None:
            return g
        f = self.ex.lookup_funcname(name)
        if f is not None:
            return FuncV(f)
        raise SpecError('%s: unknown identifier %r' % (self.what, name))

    def term(self, e):
        v = self.ev(e)
        if isinstance(v, T):
            return v
        if isinstance(v, (PtrV, Opaque)):
            return self.ex.scalar_term(v)
        raise SpecError('%s: expected scalar, got %r for %r' % (self.what, v, e))

    def boolean(self, e):
        t = self.term(e)
        if t.sort != BOOL:
            raise SpecError('%s: expected bool in %r' % (self.what, e))
        return t

    def deref(self, v):
        """auto-dereference pointers to structs"""
        if isinstance(v, PtrV):
            a = v.addr if v.addr is not None else ('obj', v.elem, v.term)
            return self.ex.load(self.st, a)
        return v

    def ev(self, e):
        # reads made while evaluating a contract expression are not reads of the program: no definedness
        # (init-read) obligations are generated for them
        self.ex.in_spec = getattr(self.ex, 'in_spec', 0) + 1
        try:
            return self.ev_(e)
        finally:
            self.ex.in_spec -= 1

    def ev_(self, e):
        k = e[0]
        ex = self.ex
        if k == 'num':
            return I(e[1])
        if k == 'str':
            return ex.string_lit(e[1])
        if k == 'id':
            return self.lookup(e[1])
        if k == 'un':
            op = e[1]
            if op == '!':
                return not_(self.boolean(e[2]))
            if op == '-':
                return neg(self.term(e[2]))
            if op == '*':
                return self.deref(self.ev(e[2]))
            if op == '+':
                return self.term(e[2])
            if op == '&':
                return self.address_of(e[2])
            raise SpecError('unary %s' % op)
        if k == 'cond':
            c = self.boolean(e[1])
            if c.is_bool():
                return self.ev(e[2]) if c.val else self.ev(e[3])
            a, b = self.ev(e[2]), self.ev(e[3])
            if a == ('nil',):
                a = self.nil_like(b)
            if b == ('nil',):
                b = self.nil_like(a)
            return ex.merge_values([c, TRUE], [a, b], 'c') if not (isinstance(a, T) and isinstance(b, T)) else ite(c, a, b)
        if k == 'bin':
            return self.binop(e[1], e[2], e[3])
        if k == 'sel':
            return self.select(e)
        if k == 'idx':
            b = self.ev(e[1])
            i = self.term(e[2])
            return self.index(b, i)
        if k == 'slc':
            b = self.ev(e[1])
            return self.slice(b, e[2], e[3])
        if k == 'call':
            return self.call(e)
        raise SpecError('expr kind %s' % k)

    def address_of(self, e):
        ex = self.ex
        if e[0] == 'idx':
            b = self.ev(e[1])
            i = self.term(e[2])
            if isinstance(b, PtrV) and ex.kind(b.elem) == 'array':
                at_ = ex.U(b.elem)
                base = b.addr if b.addr is not None else ('obj', b.elem, b.term)
                return ex.ptr_term(self.st, PtrV(None, at_['elem'], ('idx', base, i, at_['elem'])))
            if isinstance(b, SliceV):
                return ex.ptr_term(self.st, PtrV(None, b.elem, ('sel', b, i, b.elem)))
            raise SpecError('%s: & of index into %r' % (self.what, b))
        if e[0] == 'sel':
            if e[1][0] == 'id' and ('&' + e[1][1]) in self.env and e[1][1] not in self.bound:
                b = self.lookup('&' + e[1][1])          # a local struct that lives in the heap: use its address
            else:
                b = self.ev(e[1])
            if isinstance(b, SnapV) and b.addr is not None:
                if hasattr(b.f, 'used'):
                    b.f.used.add('&')
                b = b.addr
            if isinstance(b, PtrV) and ex.kind(b.elem) == 'struct':
                fs = [f for f in ex.struct_fields(b.elem) if f['name'] == e[2]]
                base = b.addr if b.addr is not None else ('obj', b.elem, b.term)
                return ex.ptr_term(self.st, PtrV(None, fs[0]['type'], ('fld', base, e[2], fs[0]['type'], b.elem)))
        if e[0] == 'id' and ('&' + e[1]) in self.env:
            p_ = self.lookup('&' + e[1])
            if isinstance(p_, PtrV):
                return p_
            raise SpecError('%s: local %s is not allocated at this point' % (self.what, e[1]))
        raise SpecError('%s: cannot take address of %r' % (self.what, e))

    def nil_like(self, v):
        if isinstance(v, PtrV):
            return PtrV(ZERO, v.elem)
        if isinstance(v, SliceV):
            return SliceV(ZERO, ZERO, ZERO, ZERO, v.elem)
        if isinstance(v, Opaque):
            return Opaque(ZERO, v.tid)
        return ZERO

    def select(self, e):
        name = e[2]
        # package-qualified constant / global: util.X
        if e[1][0] == 'id' and e[1][1] not in self.env and e[1][1] not in self.bound:
            c = self.ex.lookup_const(e[1][1] + '.' + name)
            if c is not None:
                return c
            f = self.ex.lookup_funcname(e[1][1] + '.' + name)
            if f is not None:
                return FuncV(f)
        b = self.ev(e[1])
        if isinstance(b, PtrV) and self.ex.kind(b.elem) == 'struct':
            # load only the selected field
            fs = [f for f in self.ex.struct_fields(b.elem) if f['name'] == name]
            if fs:
                base = b.addr if b.addr is not None else ('obj', b.elem, b.term)
                a = ('fld', base, name, fs[0]['type'], b.elem)
                if self.ex.kind(fs[0]['type']) in ('array', 'struct') and self.ex.addr_root(base)[0] != 'cell':
                    return PtrV(None, fs[0]['type'], a)
                return self.ex.load(self.st, a)
        b = self.deref(b)
        if isinstance(b, (StructV, SnapV)):
            if name in b.f:
                return b.f[name]
            # promoted fields of embedded structs
            for fn_, fv in b.f.items():
                if isinstance(fv, (StructV, SnapV)) and name in fv.f:
                    return fv.f[name]
            raise SpecError('%s: no field %s in %s' % (self.what, name, b.tid))
        if isinstance(b, TupleV):
            return b.elems[int(name[1:])]
        if isinstance(b, SliceV) or isinstance(b, SeqV):
            if name in ('arr', 'off', 'len', 'cap'):
                return getattr(b, name) if name != 'arr' or isinstance(b, SliceV) else b.a
        if isinstance(b, StrV) and name in ('arr', 'off', 'len'):
            return getattr(b, name)
        raise SpecError('%s: selector .%s on %r' % (self.what, name, b))

    def index(self, b, i):
        ex = self.ex
        if isinstance(b, PtrV) and ex.kind(b.elem) == 'array':
            at_ = ex.U(b.elem)
            base = b.addr if b.addr is not None else ('obj', b.elem, b.term)
            a = ('idx', base, i, at_['elem'])
            if ex.kind(at_['elem']) == 'array':
                return PtrV(None, at_['elem'], a)
            return ex.load(self.st, a)
        b = self.deref(b) if isinstance(b, PtrV) else b
        if isinstance(b, SliceV):
            return ex.elem_load(self.st, b.elem, b.arr, add(b.off, i))
        if isinstance(b, SeqV):
            v = select(b.a, add(b.off, i))
            return ex.wrap_scalar(v, b.elem) if ex.kind(b.elem) == 'pointer' else v
        if isinstance(b, StrV):
            h = ex.heap_get(self.st, 'HS:uint8', arr(ARR_II))
            ex.strlit_bytes_fact(self.st, b)
            return select(select(h, b.arr), add(b.off, i))
        if isinstance(b, ArrV):
            return ex.arr_select(b, i)
        raise SpecError('%s: index on %r' % (self.what, b))

    def slice(self, b, lo, hi):
        lo_t = self.term(lo) if lo is not None else ZERO
        if isinstance(b, SliceV):
            hi_t = self.term(hi) if hi is not None else b.len
            return SliceV(b.arr, add(b.off, lo_t), sub(hi_t, lo_t), sub(b.cap, lo_t), b.elem)
        if isinstance(b, SeqV):
            hi_t = self.term(hi) if hi is not None else b.len
            return SeqV(b.a, add(b.off, lo_t), sub(hi_t, lo_t), b.elem)
        if isinstance(b, StrV):
            hi_t = self.term(hi) if hi is not None else b.len
            return StrV(b.arr, add(b.off, lo_t), sub(hi_t, lo_t))
        raise SpecError('%s: slice of %r' % (self.what, b))

    def binop(self, op, a, b):
        if op == '&&':
            x = self.boolean(a)
            if x.is_bool() and not x.val:
                return FALSE
            return and_(x, self.boolean(b))
        if op == '||':
            x = self.boolean(a)
            if x.is_bool() and x.val:
                return TRUE
            return or_(x, self.boolean(b))
        if op == '==>':
            x = self.boolean(a)
            if x.is_bool() and not x.val:
                return TRUE
            return implies(x, self.boolean(b))
        if op == '<==>':
            return eq(self.boolean(a), self.boolean(b))
        if op in ('==', '!='):
            x, y = self.ev(a), self.ev(b)
            r = self.deep_eq(x, y)
            return r if op == '==' else not_(r)
        x, y = self.term(a), self.term(b)
        if op == '+':
            return add(x, y)
        if op == '-':
            return sub(x, y)
        if op == '*':
            return mul(x, y)
        if op == '/':
            return go_div(x, y)
        if op == '%':
            return go_mod(x, y)
        if op == '<':
            return lt(x, y)
        if op == '<=':
            return le(x, y)
        if op == '>':
            return gt(x, y)
        if op == '>=':
            return ge(x, y)
        if op in ('&', '|', '^', '<<', '>>', '&^'):
            return self.ex.bitop(op, x, y, None)
        raise SpecError('binop %s' % op)

    def deep_eq(self, x, y):
        ex = self.ex
        if x == ('nil',) and y == ('nil',):
            return TRUE
        if x == ('nil',):
            x, y = y, x
        if y == ('nil',):
            if isinstance(x, PtrV):
                return eq(ex.scalar_term(x), ZERO)
            if isinstance(x, SliceV):
                return eq(x.arr, ZERO)
            if isinstance(x, Opaque):
                return eq(x.term, ZERO)
            if isinstance(x, T):
                return eq(x, ZERO)
            if isinstance(x, FuncV):
                return FALSE          # a named function or a function literal is never nil
            raise SpecError('nil comparison of %r' % (x,))
        if isinstance(x, T) and isinstance(y, T):
            return eq(x, y)
        if isinstance(x, T) and isinstance(y, (PtrV, Opaque, FuncV)):
            x, y = y, x
        if isinstance(x, (PtrV, Opaque, FuncV)) and isinstance(y, (PtrV, Opaque, FuncV, T)):
            if isinstance(x, PtrV) and isinstance(y, PtrV) and x.term is None and y.term is None:
                return B(x.addr == y.addr)
            return eq(ex.scalar_term(x), ex.scalar_term(y))
        if isinstance(x, SliceV) and isinstance(y, SliceV):
            return and_(eq(x.arr, y.arr), eq(x.off, y.off), eq(x.len, y.len), eq(x.cap, y.cap))
        if isinstance(x, StrV) and isinstance(y, StrV):
            return ex.str_eq(self.st, x, y)
        if isinstance(x, (StructV, SnapV)) and isinstance(y, (StructV, SnapV)):
            return and_(*[self.deep_eq(x.f[k], y.f[k]) for k in x.f])
        if isinstance(x, ArrV) and isinstance(y, ArrV):
            return and_(*[self.deep_eq(p, q) for p, q in zip(x.elems, y.elems)])
        if isinstance(x, TupleV) and isinstance(y, TupleV):
            return and_(*[self.deep_eq(p, q) for p, q in zip(x.elems, y.elems)])
        if isinstance(x, SeqV) and isinstance(y, SeqV):
            return and_(eq(x.a, y.a), eq(x.off, y.off), eq(x.len, y.len))
        raise SpecError('%s: cannot compare %r and %r' % (self.what, x, y))

    def ident_eq(self, x, y):
        """bit-identical values (strings compared by header, as a copy produces)"""
        if isinstance(x, StrV) and isinstance(y, StrV):
            return and_(eq(x.arr, y.arr), eq(x.off, y.off), eq(x.len, y.len))
        if isinstance(x, (StructV, SnapV)) and isinstance(y, (StructV, SnapV)):
            return and_(*[self.ident_eq(x.f[k], y.f[k]) for k in x.f])
        if isinstance(x, ArrV) and isinstance(y, ArrV):
            return and_(*[self.ident_eq(p, q) for p, q in zip(x.elems, y.elems)])
        if isinstance(x, TupleV) and isinstance(y, TupleV):
            return and_(*[self.ident_eq(p, q) for p, q in zip(x.elems, y.elems)])
        return self.deep_eq(x, y)

    def quant(self, which, args):
        if len(args) not in (4, 5) or args[0][0] != 'id':
            raise SpecError('%s(k, lo, hi, body [, trigger]) expected' % which)
        name = args[0][1]
        lo, hi = self.term(args[1]), self.term(args[2])
        if lo.is_int() and hi.is_int() and hi.val - lo.val <= 32 and self.ex.expand_small_quants:
            parts = []
            saved = self.bound.get(name)
            try:
                for v_ in range(lo.val, hi.val):
                    self.bound[name] = I(v_)
                    parts.append(self.boolean(args[3]))
            finally:
                if saved is None:
                    self.bound.pop(name, None)
                else:
                    self.bound[name] = saved
            return and_(*parts) if which == 'forall' else or_(*parts)
        qmax = self.ex.opts.get('qmax') if self.ex.expand_small_quants else None
        if qmax is not None and not self.no_expand and not self.ex.has_bound([lo, hi]) and not (lo.is_int() and hi.is_int()):
            # bounded mode: expand over lo .. lo+qmax-1 with guards; exact iff hi - lo <= qmax (side obligation)
            self.ex.oblige(self.st, 'qbound', which, le(sub(hi, lo), I(qmax)), {'clause': 'quantifier range within the bounded-mode expansion limit'})
            parts = []
            saved = self.bound.get(name)
            try:
                for j in range(qmax):
                    kv = add(lo, I(j))
                    self.bound[name] = kv
                    b_ = self.boolean(args[3])
                    parts.append(implies(lt(kv, hi), b_) if which == 'forall' else and_(lt(kv, hi), b_))
            finally:
                if saved is None:
                    self.bound.pop(name, None)
                else:
                    self.bound[name] = saved
            return and_(*parts) if which == 'forall' else or_(*parts)
        n = self.ex.ctx.counter.get('q:' + name, 0)
        self.ex.ctx.counter['q:' + name] = n + 1
        k = const('%s?%d' % (name, n), INT)
        saved = self.bound.get(name)
        self.bound[name] = k
        prefer = None
        try:
            body = self.boolean(args[3])
            if len(args) == 5:
                # explicit trigger: an element read such as (*pos)[k]; the quantifier is phrased over its absolute index
                prefer = self.term(args[4])
        finally:
            if saved is None:
                del self.bound[name]
            else:
                self.bound[name] = saved
        if prefer is not None:
            return self.finish_quant(which, name, n, k, lo, hi, body, prefer)
        if which == 'forall' and body.op == 'and':
            # forall distributes over conjunction: one quantifier per conjunct, each re-indexed for its own array
            return and_(*[self.finish_quant(which, name, '%d_%d' % (n, ci), k, lo, hi, cj) for ci, cj in enumerate(body.args)])
        return self.finish_quant(which, name, n, k, lo, hi, body)

    def finish_quant(self, which, name, n, k, lo, hi, body, prefer=None):
        # phrase array facts over absolute indices: if the body reads A[k + rest], re-index by j = k + rest
        cnt = {}
        for x in subterms(body):
            if (x.op == 'select' and x.args[0].sort in (ARR_II, ARR_IB)) or (x.op == 'app' and x.val == 'elem'):
                for cf in (1, -1):
                    r = lin_split(x.args[1], k, cf)
                    if r is not None:
                        cnt[(cf, r)] = cnt.get((cf, r), 0) + (3 if x.op == 'app' else 1)
        pats = []
        if prefer is not None:
            if not (prefer.op == 'select' or (prefer.op == 'app' and prefer.val == 'elem')):
                raise SpecError('%s: the trigger of a quantifier must be an element read' % self.what)
            pr_ = None
            cands_ = [prefer] + [x for x in subterms(prefer) if x.op == 'app' and x.val == 'elem']
            for c_ in cands_:
                for cf in (1, -1):
                    r = lin_split(c_.args[1], k, cf)
                    if r is not None:
                        pr_ = (cf, r)
                        break
                if pr_ is not None:
                    break
            if pr_ is None:
                raise SpecError('%s: trigger index is not k + c or c - k' % self.what)
            cnt = {pr_: 1}
        if cnt:
            cf, rest = max(cnt, key=lambda cr: (cnt[cr], cr[0], -len(smt(cr[1]))))
            if cf == 1 and not (rest.is_int() and rest.val == 0):
                j = const('%s?%sj' % (name, n), INT)
                m = {k: sub(j, rest)}
                body = substitute(body, m)
                lo, hi = add(lo, rest), add(hi, rest)
                k = j
            elif cf == -1:
                # index = rest - k  ->  j = rest - k, k = rest - j, range lo <= k < hi  <=>  rest-hi < j <= rest-lo
                j = const('%s?%sj' % (name, n), INT)
                m = {k: sub(rest, j)}
                body = substitute(body, m)
                lo, hi = add(sub(rest, hi), ONE), add(sub(rest, lo), ONE)
                k = j
            seen = set()
            for x in subterms(body):
                if x.op == 'app' and x.val == 'elem' and x.args[1] == k and x not in seen:
                    seen.add(x)
                    pats.insert(0, x)
            for x in subterms(body):
                if x.op == 'select' and x.args[1] == k and x not in seen and not any(y.op in ('forall', 'exists') for y in subterms(x.args[0])):
                    seen.add(x)
                    pats.append(x)
            pats = pats[:1] if which == 'forall' else []
        rng = and_(le(lo, k), lt(k, hi))
        if which == 'forall':
            return forall([k], implies(rng, body), pats)
        return exists([k], and_(rng, body))

    def call(self, e):
        ex = self.ex
        f, args = e[1], e[2]
        if f[0] == 'id':
            name = f[1]
            if name in ('forall', 'exists'):
                return self.quant(name, args)
            if name == 'old':
                if self.old is None:
                    raise SpecError('%s: old() not available here' % self.what)
                sub_ = SpecEval(ex, self.old, self.env_old(), None, self.what)
                sub_.bound = self.bound
                return sub_.ev(args[0])
            if name == 'len':
                v = self.ev(args[0])
                v = self.deref(v) if isinstance(v, PtrV) else v
                if isinstance(v, ArrV):
                    return I(len(v.elems))
                if isinstance(v, Opaque) and ex.kind(v.tid) == 'map':
                    return ex.map_len(self.st, v)
                return v.len
            if name == 'cap':
                v = self.ev(args[0])
                v = self.deref(v) if isinstance(v, PtrV) else v
                return v.cap
            if name in CONVS:
                return self.term(args[0])
            if name == 'min':
                a, b = self.term(args[0]), self.term(args[1])
                return ite(le(a, b), a, b)
            if name == 'max':
                a, b = self.term(args[0]), self.term(args[1])
                return ite(le(a, b), b, a)
            if name == 'ite':
                return self.ev(('cond', args[0], args[1], args[2]))
            if name == 'init':
                s = self.ev(args[0])
                lo, hi = self.term(args[1]), self.term(args[2])
                ih = ex.heap_get(self.st, 'INIT:' + ex.elem_key(s.elem), arr(arr(BOOL)))
                k = const('ik?', INT)
                return forall([k], implies(and_(le(add(s.off, lo), k), lt(k, add(s.off, hi))), select(select(ih, s.arr), k)), [select(select(ih, s.arr), k)])
            if name == 'unowned':
                s = self.ev(args[0])
                lo, hi = self.term(args[1]), self.term(args[2])
                oh = ex.heap_get(self.st, 'OWN:' + ex.elem_key(s.elem), arr(arr(BOOL)))
                k = const('uk?', INT)
                return forall([k], implies(and_(le(add(s.off, lo), k), lt(k, add(s.off, hi))), not_(select(select(oh, s.arr), k))), [select(select(oh, s.arr), k)])
            if name == 'fresh':
                v = self.ev(args[0])
                t = v.arr if isinstance(v, (SliceV, StrV)) else ex.scalar_term(v)
                return ge(t, self.fresh_base())
            if name == 'sameArray':
                a, b = self.ev(args[0]), self.ev(args[1])
                return eq(a.arr, b.arr)
            if name == 'unchanged':
                return self.deep_eq(self.ev(args[0]), self.call(('call', ('id', 'old'), [args[0]])))
            if name == 'asRunes':
                v = self.ev(args[0])
                if isinstance(v, SeqV):
                    if v.alt is None:
                        raise SpecError('%s: asRunes on a sequence without rune view' % self.what)
                    return SeqV(v.alt, v.off, v.len, ex.rune_tid())
                return SliceV(v.arr, v.off, v.len, v.cap, ex.rune_tid())
            if name == 'asBytes':
                v = self.ev(args[0])
                return SliceV(v.arr, v.off, v.len, v.cap, ex.byte_tid())
            if name == 'bytesOf':
                v = self.ev(args[0])
                return SliceV(v.arr, v.off, v.len, v.len, ex.byte_tid())
            if name == 'content_eq':
                # content_eq(s, t): same length and pointwise equal
                a, b = self.ev(args[0]), self.ev(args[1])
                return self.content_eq(a, b)
            if name in ('mapget', 'maphas'):
                m = self.ev(args[0])
                kv = self.ev(args[1])
                k = ex.map_key_term(self.st, ex.U(m.tid), kv) if isinstance(kv, StrV) else self.term(args[1])
                return ex.map_read(self.st, m, k, name == 'maphas')
            if name == 'fvcall':
                # fvcall(f, i, args...): i-th scalar result of the pure function value f applied to args
                fv = self.ev(args[0])
                idx = args[1][1]
                avs = [self.ev(a) for a in args[2:]]
                flat = ex.fv_flat(self.st, fv, avs, None)
                nm_ = 'fv.pure.%d/%d' % (idx, len(flat))
                srt = BOOL if False else INT
                ex.ctx.declare_fun(nm_, [t_.sort for t_ in flat], srt)
                return app(nm_, flat, srt)
            if name == 'samestr':
                a, b = self.ev(args[0]), self.ev(args[1])
                return and_(eq(a.arr, b.arr), eq(a.off, b.off), eq(a.len, b.len))
            if name == 'allocated':
                v = self.ev(args[0])
                t = v.arr if isinstance(v, (SliceV, StrV)) else ex.scalar_term(v)
                return lt(t, self.st.alloc)
            sf = ex.specs.specfuncs.get(name)
            if sf is not None:
                return ex.call_specfunc(sf, [self.ev(a) for a in args], self)
            m_s = re.match(r'^(\w+)_s(\d)$', name)
            if m_s:
                # slice result k of a pure Go function, e.g. transformInput_s0(p, item)
                full = ex.find_func(m_s.group(1))
                if full is not None:
                    sp = ex.find_spec(full)
                    if sp is not None and 'pure' in sp.opts:
                        rt = ex.prog.funcs[full]['results'][int(m_s.group(2))]['type']
                        return ex.pure_slice(self.st, full, [self.ev(a) for a in args], int(m_s.group(2)), ex.U(rt)['elem'])
            m_ = re.match(r'^(\w+)_r(\d)$', name)
            if m_:
                # result k of a pure Go function, e.g. asciiFuzzyIndex_r0(input, pattern, cs)
                full = ex.find_func(m_.group(1))
                if full is not None:
                    sp = ex.find_spec(full)
                    if sp is not None and 'pure' in sp.opts:
                        rts = ex.prog.funcs[full]['results']
                        rt = rts[int(m_.group(2))]['type']
                        return ex.pure_app(self.st, full, [self.ev(a) for a in args], int(m_.group(2)), ex.sort_of(rt))
            raise SpecError('%s: unknown function %s' % (self.what, name))
        if f[0] == 'sel' and f[1][0] == 'id' and re.match(r'^(\w+)_r(\d)$', f[2]) and f[1][1] not in self.env and f[1][1] not in self.bound:
            # result k of a pure Go method, e.g. Item.AsString_r0(item, ansi)
            m_ = re.match(r'^(\w+)_r(\d)$', f[2])
            full = ex.find_func(f[1][1] + '.' + m_.group(1))
            sp = ex.find_spec(full) if full is not None else None
            if sp is None or 'pure' not in sp.opts:
                raise SpecError('%s: %s.%s is not a function declared pure' % (self.what, f[1][1], m_.group(1)))
            fn_ = ex.prog.funcs.get(full)
            idx_ = int(m_.group(2))
            rt = fn_['results'][idx_]['type']
            vals_ = [self.ev(a) for a in args]
            if ex.is_string(rt):
                sl = ex.pure_slice(self.st, full, vals_, idx_, ex.byte_tid())
                return StrV(sl.arr, sl.off, sl.len)
            if ex.kind(rt) == 'slice':
                return ex.pure_slice(self.st, full, vals_, idx_, ex.U(rt)['elem'])
            return ex.pure_app(self.st, full, vals_, idx_, ex.sort_of(rt))
        if f[0] == 'sel':
            # method-style: recv.Name(args) -> spec func "Type.Name"
            recv = self.ev(f[1])
            tn = ex.value_typename(recv)
            sf = ex.specs.specfuncs.get('%s.%s' % (tn, f[2])) or ex.specs.specfuncs.get('%s_%s' % (tn, f[2]))
            if sf is None:
                raise SpecError('%s: no spec func %s.%s' % (self.what, tn, f[2]))
            return ex.call_specfunc(sf, [recv] + [self.ev(a) for a in args], self)
        raise SpecError('%s: call of %r' % (self.what, f))

    def content_eq(self, a, b):
        k = const('ce?', INT)
        return and_(eq(a.len, b.len), forall([k], implies(and_(le(ZERO, k), lt(k, a.len)), self.deep_eq(self.index(a, k), self.index(b, k)))))

    def env_old(self):
        return self.ex.old_env if self.ex.old_env is not None else self.env

    def fresh_base(self):
        return self.ex.alloc0
