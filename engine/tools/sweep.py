"""exploration aid: which functions of a file verify (panic-freedom only) with no annotations at all?"""
import sys, os, time
sys.path.insert(0, '/verif/engine')
os.environ.update(GOFLAGS='-mod=mod', GOPROXY='off', GOSUMDB='off', GOTOOLCHAIN='local')
from gowp import main as M
files = sys.argv[1:]
ses = M.Session([M.MOD + '/src/util', M.MOD + '/src/algo', M.MOD + '/src', M.MOD + '/src/tui'])
for f, fn in sorted(ses.prog.funcs.items()):
    if not fn.get('file') or os.path.basename(fn['file']) not in files or not fn.get('blocks'):
        continue
    if ses.resolver(f) is not None:
        continue
    t = time.time()
    try:
        r = ses.verify_function(f, 6)
    except Exception as ex:
        print('%-60s CRASH %s' % (M.short_fn(f), ex))
        continue
    if r['error']:
        print('%-60s skip  %s' % (M.short_fn(f), r['error'][:110]))
        continue
    obs = r['obligations']
    bad = [o for o in obs if o['status'] != 'unsat']
    print('%-60s %3d/%3d %s %s' % (M.short_fn(f), len(obs) - len(bad), len(obs), 'ALL' if not bad else '', ' '.join('%s@L%d' % (o['name'].split('/')[-1], o['line']) for o in bad[:4])))
