// ssajson dumps go/ssa (NaiveForm) of the requested packages of the module in
// the current directory as JSON, for the gowp verification-condition generator.
// Nothing is rewritten: the JSON is a faithful serialisation of what
// golang.org/x/tools/go/ssa builds from the working tree on this run.
package main

import (
	"encoding/json"
	"flag"
	"fmt"
	"go/ast"
	"go/constant"
	"go/token"
	"go/types"
	"os"
	"sort"
	"strings"

	"golang.org/x/tools/go/packages"
	"golang.org/x/tools/go/ssa"
	"golang.org/x/tools/go/ssa/ssautil"
)

type J = map[string]interface{}

var fset *token.FileSet
var typeTab = map[string]J{}

func qual(p *types.Package) string { return p.Path() }

func tid(t types.Type) string {
	if t == nil {
		return ""
	}
	id := types.TypeString(t, qual)
	if _, ok := typeTab[id]; ok {
		return id
	}
	e := J{}
	typeTab[id] = e
	switch tt := t.(type) {
	case *types.Basic:
		e["kind"] = "basic"
		e["name"] = tt.Name()
		info := tt.Info()
		e["isint"] = info&types.IsInteger != 0
		e["unsigned"] = info&types.IsUnsigned != 0
		e["untyped"] = info&types.IsUntyped != 0
	case *types.Named:
		e["kind"] = "named"
		e["underlying"] = tid(tt.Underlying())
		if tt.Obj().Pkg() != nil {
			e["pkg"] = tt.Obj().Pkg().Path()
		}
		e["name"] = tt.Obj().Name()
	case *types.Alias:
		e["kind"] = "named"
		e["underlying"] = tid(types.Unalias(tt).Underlying())
		e["name"] = tt.Obj().Name()
	case *types.Pointer:
		e["kind"] = "pointer"
		e["elem"] = tid(tt.Elem())
	case *types.Slice:
		e["kind"] = "slice"
		e["elem"] = tid(tt.Elem())
	case *types.Array:
		e["kind"] = "array"
		e["elem"] = tid(tt.Elem())
		e["len"] = tt.Len()
	case *types.Struct:
		e["kind"] = "struct"
		fs := []J{}
		for i := 0; i < tt.NumFields(); i++ {
			f := tt.Field(i)
			fs = append(fs, J{"name": f.Name(), "type": tid(f.Type()), "embedded": f.Embedded()})
		}
		e["fields"] = fs
	case *types.Map:
		e["kind"] = "map"
		e["key"] = tid(tt.Key())
		e["elem"] = tid(tt.Elem())
	case *types.Chan:
		e["kind"] = "chan"
		e["elem"] = tid(tt.Elem())
	case *types.Signature:
		e["kind"] = "func"
		ps := []string{}
		for i := 0; i < tt.Params().Len(); i++ {
			ps = append(ps, tid(tt.Params().At(i).Type()))
		}
		rs := []string{}
		for i := 0; i < tt.Results().Len(); i++ {
			rs = append(rs, tid(tt.Results().At(i).Type()))
		}
		e["params"] = ps
		e["results"] = rs
		e["variadic"] = tt.Variadic()
	case *types.Tuple:
		e["kind"] = "tuple"
		es := []string{}
		for i := 0; i < tt.Len(); i++ {
			es = append(es, tid(tt.At(i).Type()))
		}
		e["elems"] = es
	case *types.Interface:
		e["kind"] = "interface"
	case *types.TypeParam:
		e["kind"] = "typeparam"
	default:
		e["kind"] = "other"
	}
	return id
}

func posOf(p token.Pos) (string, int, int) {
	if !p.IsValid() {
		return "", 0, 0
	}
	pp := fset.Position(p)
	return pp.Filename, pp.Line, pp.Column
}

func val(v ssa.Value) J {
	switch x := v.(type) {
	case nil:
		return nil
	case *ssa.Const:
		j := J{"k": "const", "type": tid(x.Type())}
		if x.Value == nil {
			j["nil"] = true
		} else {
			switch x.Value.Kind() {
			case constant.Bool:
				j["v"] = constant.BoolVal(x.Value)
			case constant.String:
				j["v"] = constant.StringVal(x.Value)
				j["bytes"] = []byte(constant.StringVal(x.Value))
				bs := []int{}
				for _, b := range []byte(constant.StringVal(x.Value)) {
					bs = append(bs, int(b))
				}
				j["bytes"] = bs
			case constant.Int:
				j["v"] = x.Value.ExactString()
			case constant.Float:
				j["v"] = x.Value.String()
				j["float"] = true
			default:
				j["v"] = x.Value.String()
			}
		}
		return j
	case *ssa.Parameter:
		return J{"k": "param", "n": x.Name(), "type": tid(x.Type())}
	case *ssa.FreeVar:
		return J{"k": "freevar", "n": x.Name(), "type": tid(x.Type())}
	case *ssa.Global:
		return J{"k": "global", "n": x.Pkg.Pkg.Path() + "." + x.Name(), "type": tid(x.Type())}
	case *ssa.Function:
		return J{"k": "func", "n": funcName(x), "type": tid(x.Type())}
	case *ssa.Builtin:
		return J{"k": "builtin", "n": x.Name()}
	default:
		return J{"k": "reg", "n": v.Name(), "type": tid(v.Type())}
	}
}

func vals(vs []ssa.Value) []J {
	r := []J{}
	for _, v := range vs {
		r = append(r, val(v))
	}
	return r
}

func funcName(f *ssa.Function) string {
	// e.g. github.com/junegunn/fzf/src/algo.FuzzyMatchV2, (*pkg.T).Method, pkg.F$1
	return f.String()
}

func call(c *ssa.CallCommon) J {
	j := J{"args": vals(c.Args)}
	if c.IsInvoke() {
		j["invoke"] = c.Method.Name()
		j["recvtype"] = tid(c.Value.Type())
		j["value"] = val(c.Value)
		j["sig"] = tid(c.Method.Type())
	} else {
		j["value"] = val(c.Value)
		if sf := c.StaticCallee(); sf != nil {
			j["static"] = funcName(sf)
		}
		j["sig"] = tid(c.Value.Type().Underlying())
	}
	return j
}

func instr(in ssa.Instruction) J {
	j := J{}
	_, line, col := posOf(in.Pos())
	j["line"] = line
	j["col"] = col
	if v, ok := in.(ssa.Value); ok {
		j["name"] = v.Name()
		j["type"] = tid(v.Type())
	}
	switch x := in.(type) {
	case *ssa.Alloc:
		j["op"] = "Alloc"
		j["heap"] = x.Heap
		j["comment"] = x.Comment
		j["elem"] = tid(x.Type().Underlying().(*types.Pointer).Elem())
	case *ssa.BinOp:
		j["op"] = "BinOp"
		j["binop"] = x.Op.String()
		j["x"] = val(x.X)
		j["y"] = val(x.Y)
	case *ssa.UnOp:
		j["op"] = "UnOp"
		j["unop"] = x.Op.String()
		j["x"] = val(x.X)
		j["commaok"] = x.CommaOk
	case *ssa.Call:
		j["op"] = "Call"
		j["call"] = call(&x.Call)
	case *ssa.Go:
		j["op"] = "Go"
		j["call"] = call(&x.Call)
	case *ssa.Defer:
		j["op"] = "Defer"
		j["call"] = call(&x.Call)
	case *ssa.ChangeInterface:
		j["op"] = "ChangeInterface"
		j["x"] = val(x.X)
	case *ssa.ChangeType:
		j["op"] = "ChangeType"
		j["x"] = val(x.X)
	case *ssa.Convert:
		j["op"] = "Convert"
		j["x"] = val(x.X)
	case *ssa.MultiConvert:
		j["op"] = "MultiConvert"
		j["x"] = val(x.X)
	case *ssa.DebugRef:
		return nil
	case *ssa.Extract:
		j["op"] = "Extract"
		j["x"] = val(x.Tuple)
		j["index"] = x.Index
	case *ssa.Field:
		j["op"] = "Field"
		j["x"] = val(x.X)
		j["field"] = x.Field
	case *ssa.FieldAddr:
		j["op"] = "FieldAddr"
		j["x"] = val(x.X)
		j["field"] = x.Field
	case *ssa.If:
		j["op"] = "If"
		j["cond"] = val(x.Cond)
	case *ssa.Index:
		j["op"] = "Index"
		j["x"] = val(x.X)
		j["index"] = val(x.Index)
	case *ssa.IndexAddr:
		j["op"] = "IndexAddr"
		j["x"] = val(x.X)
		j["index"] = val(x.Index)
	case *ssa.Jump:
		j["op"] = "Jump"
	case *ssa.Lookup:
		j["op"] = "Lookup"
		j["x"] = val(x.X)
		j["index"] = val(x.Index)
		j["commaok"] = x.CommaOk
	case *ssa.MakeChan:
		j["op"] = "MakeChan"
		j["size"] = val(x.Size)
	case *ssa.MakeClosure:
		j["op"] = "MakeClosure"
		j["fn"] = val(x.Fn)
		j["bindings"] = vals(x.Bindings)
	case *ssa.MakeInterface:
		j["op"] = "MakeInterface"
		j["x"] = val(x.X)
	case *ssa.MakeMap:
		j["op"] = "MakeMap"
		j["reserve"] = val(x.Reserve)
	case *ssa.MakeSlice:
		j["op"] = "MakeSlice"
		j["len"] = val(x.Len)
		j["cap"] = val(x.Cap)
	case *ssa.MapUpdate:
		j["op"] = "MapUpdate"
		j["map"] = val(x.Map)
		j["key"] = val(x.Key)
		j["value"] = val(x.Value)
	case *ssa.Next:
		j["op"] = "Next"
		j["iter"] = val(x.Iter)
		j["isstring"] = x.IsString
	case *ssa.Panic:
		j["op"] = "Panic"
		j["x"] = val(x.X)
	case *ssa.Phi:
		j["op"] = "Phi"
		j["edges"] = vals(x.Edges)
		j["comment"] = x.Comment
	case *ssa.Range:
		j["op"] = "Range"
		j["x"] = val(x.X)
	case *ssa.Return:
		j["op"] = "Return"
		j["results"] = vals(x.Results)
	case *ssa.RunDefers:
		j["op"] = "RunDefers"
	case *ssa.Select:
		j["op"] = "Select"
		sts := []J{}
		for _, s := range x.States {
			sts = append(sts, J{"dir": int(s.Dir), "chan": val(s.Chan), "send": val(s.Send)})
		}
		j["states"] = sts
		j["blocking"] = x.Blocking
	case *ssa.Send:
		j["op"] = "Send"
		j["chan"] = val(x.Chan)
		j["x"] = val(x.X)
	case *ssa.Slice:
		j["op"] = "Slice"
		j["x"] = val(x.X)
		j["low"] = val(x.Low)
		j["high"] = val(x.High)
		j["max"] = val(x.Max)
	case *ssa.SliceToArrayPointer:
		j["op"] = "SliceToArrayPointer"
		j["x"] = val(x.X)
	case *ssa.Store:
		j["op"] = "Store"
		j["addr"] = val(x.Addr)
		j["val"] = val(x.Val)
	case *ssa.TypeAssert:
		j["op"] = "TypeAssert"
		j["x"] = val(x.X)
		j["asserted"] = tid(x.AssertedType)
		j["commaok"] = x.CommaOk
	default:
		j["op"] = fmt.Sprintf("%T", in)
	}
	return j
}

type loopInfo struct {
	Kind              string
	Line, EndLine     int
	Col               int
	BodyLine, BodyCol int
	Label             string
	Scope             map[string]string
}

// scopeAt returns name -> "line:col" of the declaration for every local
// variable (incl. params and named results) visible at pos inside fn's scope.
func scopeAt(pkg *types.Package, fnScope *types.Scope, pos token.Pos) map[string]string {
	res := map[string]string{}
	s := pkg.Scope().Innermost(pos)
	for s != nil && s != pkg.Scope() && s != types.Universe {
		for _, n := range s.Names() {
			o := s.Lookup(n)
			v, ok := o.(*types.Var)
			if !ok {
				continue
			}
			if _, seen := res[n]; seen {
				continue
			}
			// declared before pos (scope position)
			if v.Pos() > pos {
				continue
			}
			_, l, c := posOf(v.Pos())
			res[n] = fmt.Sprintf("%d:%d", l, c)
		}
		s = s.Parent()
	}
	return res
}

func funcJSON(f *ssa.Function, pkg *packages.Package) J {
	j := J{"name": funcName(f), "pkg": pkg.PkgPath, "short": f.Name()}
	file, line, _ := posOf(f.Pos())
	j["file"] = file
	j["line"] = line
	if f.Parent() != nil {
		j["parent"] = funcName(f.Parent())
	}
	if f.Signature.Recv() != nil {
		j["recv"] = tid(f.Signature.Recv().Type())
	}
	ps := []J{}
	for _, p := range f.Params {
		ps = append(ps, J{"name": p.Name(), "type": tid(p.Type())})
	}
	j["params"] = ps
	fv := []J{}
	for _, p := range f.FreeVars {
		fv = append(fv, J{"name": p.Name(), "type": tid(p.Type())})
	}
	j["freevars"] = fv
	rs := []J{}
	res := f.Signature.Results()
	for i := 0; i < res.Len(); i++ {
		rs = append(rs, J{"name": res.At(i).Name(), "type": tid(res.At(i).Type())})
	}
	j["results"] = rs
	j["synthetic"] = f.Synthetic
	bs := []J{}
	for _, b := range f.Blocks {
		bj := J{"index": b.Index, "comment": b.Comment}
		pr := []int{}
		for _, p := range b.Preds {
			pr = append(pr, p.Index)
		}
		su := []int{}
		for _, s := range b.Succs {
			su = append(su, s.Index)
		}
		bj["preds"] = pr
		bj["succs"] = su
		ins := []J{}
		for _, in := range b.Instrs {
			if ij := instr(in); ij != nil {
				ins = append(ins, ij)
			}
		}
		bj["instrs"] = ins
		bs = append(bs, bj)
	}
	j["blocks"] = bs
	if f.Recover != nil {
		j["recover"] = f.Recover.Index
	}
	// AST loops in source pre-order with the scope visible inside each body
	if syn := f.Syntax(); syn != nil {
		var body *ast.BlockStmt
		switch s := syn.(type) {
		case *ast.FuncDecl:
			body = s.Body
		case *ast.FuncLit:
			body = s.Body
		}
		_, el, _ := posOf(syn.End())
		j["endline"] = el
		loops := []J{}
		if body != nil {
			labels := map[ast.Stmt]string{}
			ast.Inspect(body, func(n ast.Node) bool {
				switch s := n.(type) {
				case *ast.FuncLit:
					return false
				case *ast.LabeledStmt:
					labels[s.Stmt] = s.Label.Name
				case *ast.ForStmt:
					_, l, c := posOf(s.Pos())
					_, e, _ := posOf(s.End())
					loops = append(loops, J{"kind": "for", "line": l, "col": c, "endline": e, "label": labels[s],
						"scope": scopeAt(pkg.Types, nil, s.Body.Lbrace+1)})
				case *ast.RangeStmt:
					_, l, c := posOf(s.Pos())
					_, e, _ := posOf(s.End())
					loops = append(loops, J{"kind": "range", "line": l, "col": c, "endline": e, "label": labels[s],
						"scope": scopeAt(pkg.Types, nil, s.Body.Lbrace+1)})
				}
				return true
			})
			j["scope_entry"] = scopeAt(pkg.Types, nil, body.Lbrace+1)
			j["scope_exit"] = scopeAt(pkg.Types, nil, body.Rbrace)
		}
		j["loops"] = loops
	}
	return j
}

func main() {
	tags := flag.String("tags", "verif", "build tags")
	dir := flag.String("dir", ".", "module directory")
	out := flag.String("o", "-", "output file")
	flag.Parse()
	pats := flag.Args()
	fset = token.NewFileSet()
	cfg := &packages.Config{
		Mode:       packages.LoadAllSyntax,
		Dir:        *dir,
		Fset:       fset,
		BuildFlags: []string{"-tags=" + *tags},
		Env:        append(os.Environ(), "GOFLAGS=-mod=mod", "GOPROXY=off", "GOSUMDB=off", "GOTOOLCHAIN=local"),
	}
	initial, err := packages.Load(cfg, pats...)
	if err != nil {
		fmt.Fprintln(os.Stderr, "load:", err)
		os.Exit(2)
	}
	if packages.PrintErrors(initial) > 0 {
		os.Exit(2)
	}
	prog, pkgs := ssautil.Packages(initial, ssa.NaiveForm|ssa.GlobalDebug)
	_ = prog
	funcs := J{}
	globals := J{}
	consts := J{}
	for i, p := range pkgs {
		if p == nil {
			continue
		}
		p.Build()
		names := []string{}
		for n := range p.Members {
			names = append(names, n)
		}
		sort.Strings(names)
		var add func(f *ssa.Function)
		add = func(f *ssa.Function) {
			if f == nil || f.Blocks == nil {
				return
			}
			funcs[funcName(f)] = funcJSON(f, initial[i])
			for _, a := range f.AnonFuncs {
				add(a)
			}
		}
		for _, n := range names {
			switch m := p.Members[n].(type) {
			case *ssa.Function:
				add(m)
			case *ssa.Global:
				globals[p.Pkg.Path()+"."+m.Name()] = J{"type": tid(m.Type().Underlying().(*types.Pointer).Elem())}
			case *ssa.NamedConst:
				cj := val(m.Value)
				consts[p.Pkg.Path()+"."+m.Name()] = cj
			case *ssa.Type:
				T := m.Type()
				tid(T)
				for _, recv := range []types.Type{T, types.NewPointer(T)} {
					ms := prog.MethodSets.MethodSet(recv)
					for k := 0; k < ms.Len(); k++ {
						fn := prog.MethodValue(ms.At(k))
						if fn != nil && fn.Pkg == p && !strings.Contains(fn.Synthetic, "wrapper") {
							add(fn)
						}
					}
				}
			}
		}
	}
	res := J{"funcs": funcs, "globals": globals, "consts": consts, "types": typeTab}
	var w *os.File = os.Stdout
	if *out != "-" {
		w, err = os.Create(*out)
		if err != nil {
			fmt.Fprintln(os.Stderr, err)
			os.Exit(2)
		}
		defer w.Close()
	}
	enc := json.NewEncoder(w)
	if err := enc.Encode(res); err != nil {
		fmt.Fprintln(os.Stderr, err)
		os.Exit(2)
	}
}
